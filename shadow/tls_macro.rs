    macro_rules! thread_local {
        (@one $(#[$attr:meta])* $vis:vis $name:ident, $t:ty, $init:expr) => {
            $(#[$attr])* $vis static $name: crate::verif_sync::LocalKey<$t> = crate::verif_sync::LocalKey {
                inner: shuttle::thread::LocalKey { init: || { $init }, _p: std::marker::PhantomData },
            };
        };
        () => {};
        ($(#[$attr:meta])* $vis:vis static $name:ident: $t:ty = const { $init:expr }; $($rest:tt)*) => (
            thread_local!(@one $(#[$attr])* $vis $name, $t, $init);
            thread_local!($($rest)*);
        );
        ($(#[$attr:meta])* $vis:vis static $name:ident: $t:ty = const { $init:expr }) => (
            thread_local!(@one $(#[$attr])* $vis $name, $t, $init);
        );
        ($(#[$attr:meta])* $vis:vis static $name:ident: $t:ty = $init:expr; $($rest:tt)*) => (
            thread_local!(@one $(#[$attr])* $vis $name, $t, $init);
            thread_local!($($rest)*);
        );
        ($(#[$attr:meta])* $vis:vis static $name:ident: $t:ty = $init:expr) => (
            thread_local!(@one $(#[$attr])* $vis $name, $t, $init);
        );
    }
