#!/bin/bash
# tools/run_mutants.sh [names...]  -- apply each /verif/mutants/<name>.diff to a scratch worktree, run the repository's
# own test suite and the corresponding quick check(s) against it; one line per mutant. Removes the worktree afterwards.
set -u
TAG=${MUT_TAG:-hm}; WT=/tmp/${TAG}_wt
NAMES=${*:-$(cd /verif/mutants && ls *.diff | sed 's/.diff$//')}
git -C /repo worktree remove --force $WT >/dev/null 2>&1
git -C /repo worktree add -q $WT HEAD || exit 2
trap 'git -C /repo worktree remove --force $WT >/dev/null 2>&1; rm -rf /verif/build/$TAG /tmp/${TAG}_target' EXIT
for n in $NAMES; do
  git -C $WT checkout -q -- . ; git -C $WT clean -fdq -e target
  grep -v '^#' /verif/mutants/$n.diff | git -C $WT apply || { echo "MUTANT $n: patch does not apply"; continue; }
  suite=$(cd $WT && CARGO_NET_OFFLINE=true CARGO_TARGET_DIR=/tmp/${TAG}_target timeout 1800 cargo test --workspace --no-fail-fast --offline 2>&1 | grep -E "^test result" | head -1 | sed 's/;.*finished.*//')
  p=$(echo $n | cut -c1-3 | tr a-z A-Z)
  checks=$p; [ $n = c14_revert_fix1 ] && checks="C14 C15"
  res=""
  for c in $checks; do
    out=$(cd /verif && VERIF_REPO=$WT VERIF_BUILD_TAG=$TAG VERIF_TIER=quick timeout 3600 bin/check $c 2>&1); rc=$?
    cls=$(echo "$out" | grep -E "^violation class=" | head -1 | cut -c1-160)
    res="$res $c:exit=$rc [$cls]"
  done
  echo "MUTANT $n | suite: $suite |$res"
done
