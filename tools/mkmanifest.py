#!/usr/bin/env python3
"""Regenerates /verif/MANIFEST.json (kept valid at all times; run after adding a check)."""
import json, os
HERE = os.path.dirname(os.path.dirname(os.path.abspath(__file__)))
NA = {
 "C01":"Pure function of one input string (totality of parse/execute); no schedule, clock, fault or interleaving for a simulator to own - needs input enumeration/fuzzing, which is outside this technique family.",
 "C02":"Grouping by the static built-in operator table is a pure function of program text; the registration-history-dependent part (registered operators, adjacent precedences) is decided under C08.",
 "C03":"Values computed by built-in operators/functions are a pure function of (program, context values); nothing to schedule or fault.",
 "C04":"The 'faults' are arithmetic edge operands inside a pure computation (zero divisor, overflow, shift>=64), not environment faults that can be injected or scheduled.",
 "C05":"Language membership of a string (malformed input rejected) - pure function of the input.",
 "C09":"Exactness of decimal literals/arithmetic is pure arithmetic on literals.",
 "C10":"Token tiling is a pure function of (string, operator set); the operator set is a static configuration here, not a history with interleavings.",
 "C11":"Whitespace/parenthesis invariance is a metamorphic relation over a pure parse.",
 "C12":"expr() round-trip is a composition of two pure functions.",
 "C17":"Value conversions are pure functions of one value.",
}
CHECKS = {
 "C06": ("exploration", "3 C06", "seeded simulation of statement programs in a fresh simulated process against an executable reference context model; failing statement injected at every position (natural type errors, unbound names, non-name targets, failing context functions)",
         "Every explored program's results, bindings seen by later statements and by handlers through the handle, and the caller's context after exec (also after a statement that failed at position k) equal the reference model. Sampling of programs, not proof.",
         "Reference model + engine-as-calculator for built-in values; programs pre-flighted; shuttle seam."),
 "C07": ("exploration", "3 C07", "seeded simulation: logging handlers record the evaluation history, compared event-for-event with the reference model's post-order log; Err injected at every handler-invocation index",
         "For every explored program the recorded handler history equals the left-to-right, exactly-once, lazy-conditional log of the model, fault-free and with an Err at every invocation index k (history must end exactly at k, context = model prefix state). Programs are sampled; all k per program are enumerated.",
         "Reference model owns order/once-ness/laziness/cut-off; built-in values from the engine as calculator; && and || strict; targets are plain variable names."),
 "C08": ("exploration", "3 C08", "seeded simulation of registration/evaluation histories in a fresh simulated process (registration before first use included) against a reference registry (last writer wins, context before global) and a textbook precedence climber for operator chains",
         "For every explored history each evaluation dispatches to the handler the model says was registered last, and each operator chain parses and evaluates with the grouping a textbook precedence-climbing parser gives for the registered precedences/associativities (adjacent values included). Sampling of histories.",
         "Reference registry + climber; marker handlers identify registrations; mixed associativity at one level is not generated."),
 "C13": ("exploration", "3 C13", "deterministic simulation of 2-4 caller threads under seeded PCT/sticky/random schedules (shuttle-backed seam, fresh statics per run), first-use races, Wing-Gong linearizability check against the sequential engine",
         "No explored interleaving of first and subsequent parse/execute/register_* calls produced a panic, a deadlock/livelock, a partially initialised table or a history that no sequential order of the same calls explains (family S). The four torn-read micro-histories (family T) are a recorded known finding. Schedules are sampled (PCT depth <= 4), not enumerated.",
         "Scheduling points are exactly the seam's lock/unlock/once/spawn/join; sequential engine is the specification; errors compared by error-ness."),
 "C14": ("fault_enumeration", "3 C14", "deterministic simulation with re-entrant handlers: exhaustive handler-kind x re-entrant-action x position matrix plus seeded nesting; deadlock decided by the simulator's scheduler",
         "Every cell of the handler kind x re-entrant action x position matrix (840 cases) completes with the model's result on every run; nested re-entrancy to depth 4 is sampled. A lock held across any handler invocation shows as a scheduler-reported deadlock.",
         "Simulator mutex reports holder re-acquisition; model predicts inner and outer results."),
 "C15": ("fault_enumeration", "3 C15", "deterministic simulation with fault injection: Err and panic injected at every handler-invocation index of every sampled program, bystander thread under seeded schedules, follow-up phase checked against the reference model",
         "For every sampled program and every invocation index k, both an injected Err and an injected panic are contained: history ends at k, the panic payload reaches the caller, the context equals the model's prefix state, and the follow-up (same context, all registries, another thread, describe) behaves as the model predicts; no lock left held (scheduler deadlock) or poisoned (real std poisoning).",
         "All fault positions per program enumerated; programs and schedules sampled; real std::sync::Mutex poisoning through the shuttle wrapper."),
 "C16": ("exploration", "3 C16", "deterministic simulation of sequences and thread interleavings of parse/exec over programs reusing names, each operation compared with the same operation alone in a fresh simulated process",
         "Every explored operation (parse, execute, parse-then-exec, repeated exec of one AST, one AST shared by two threads) returned the result and final context it returns alone in a fresh process with the same registrations; registries answer a probe set unchanged afterwards. Histories and schedules sampled.",
         "Sequential engine alone is the specification; registrations happen only before the threads start."),
 "C18": ("exploration", "3 C18", "seeded simulation of descriptor-registration histories in a fresh simulated process against a reference describe(); exhaustive single-registration x node-kind part",
         "Every single (kind[,name]) descriptor registration against every node kind is enumerated on every run, plus sampled subsets/re-registrations: describe() equals the reference rendering (registered descriptor or documented default), never panics.",
         "Reference describe over the harness's own tree; descriptors reachable only through the verif_hooks re-export."),
}
def main():
    have = set()
    props_rs = open(os.path.join(HERE, "sim/src/props/mod.rs")).read()
    for pid in CHECKS:
        if ("pub mod %s;" % pid.lower()) in props_rs:
            have.add(pid)
    checks = []
    for pid in sorted(have):
        lvl, ref, tech, text, note = CHECKS[pid]
        checks.append({
            "property_id": pid,
            "quick_cmd": "VERIF_TIER=quick bin/check %s" % pid,
            "thorough_cmd": "VERIF_TIER=thorough bin/check %s" % pid,
            "evidence_file": "/verif/evidence/%s.json" % pid,
            "replay_cmd_template": "bin/check replay {path}",
            "engine": "simcheck",
            "level_claimed": {"category": lvl, "text": text, "design_ref": "DESIGN.md section " + ref},
            "level_note": note,
            "technique": tech,
        })
    na = dict(NA)
    for pid in CHECKS:
        if pid not in have:
            na[pid] = "Check not built yet (planned: deterministic simulation, see DESIGN.md section 3 %s); not claimed until it exists." % pid
    hooks_commit = os.popen("git -C /repo log --format=%h --grep='^verif hooks' ").read().split()
    m = {
     "version": 1,
     "setup_cmd": "bin/setup",
     "hooks": {
       "guard": "cargo features verif_hooks / verif_sim (declared only in /verif/shadow/Cargo.toml; /repo's own Cargo.toml does not know them)",
       "enable": "bin/check builds /verif/sim, which depends on /verif/shadow (package expression_engine, [lib] path = /repo/src/lib.rs) with features verif_hooks,verif_sim",
       "baseline_off_cmd": "cd /repo && cargo test --workspace --no-fail-fast --offline",
       "source_commits": hooks_commit,
       "add_only": True,
     },
     "engines": [{"name": "simcheck", "path": "/verif/sim", "serves_properties": sorted(have),
                  "kind_free_text": "deterministic simulator: the real engine compiled against a shuttle-backed synchronisation seam, one seeded scheduler deciding every interleaving, fresh process-global state per simulated run, handler-level fault injection, reference-model / sequential-engine / linearizability oracles, minimising shrinker, replay files"}],
     "checks": checks,
     "not_applicable": [{"property_id": k, "reason": v} for k, v in sorted(na.items())],
     "notes": "See DESIGN.md. Technique family: deterministic simulation with fault injection. KNOWN_FINDINGS.txt lists the recorded C13 finding (torn registration reads, templates T1-T4) and the defects repaired by fix: commits. The simulator is built optimised with overflow checks and debug assertions on (the run-time checks of the profile the repository's own suite runs under). If the checked tree uses std/core::sync::atomic, bin/check builds from a scratch copy of src/ in which atomics are routed through the simulator (the repository itself has no hook for them and is never modified). SENSITIVITY.md: 247 changes by independent sub-agents + 23 hand-written ones, which checks catch which; benign/: 48 behaviour-preserving refactorings, no alarm.",
    }
    json.dump(m, open(os.path.join(HERE, "MANIFEST.json"), "w"), indent=1)
    print("checks:", sorted(have))
main()
