#!/bin/bash
# tools/run_seeded.sh [ids...]  -- re-run the recorded detecting checks against every seeded change
# (patch applied to a scratch worktree of /repo HEAD; removed afterwards). One line per change.
set -u
TAG=${MUT_TAG:-sd}; WT=/tmp/${TAG}_wt
IDS=${*:-$(ls /verif/seeded)}
git -C /repo worktree remove --force $WT >/dev/null 2>&1
git -C /repo worktree add -q $WT HEAD || exit 2
trap 'git -C /repo worktree remove --force $WT >/dev/null 2>&1; rm -rf /verif/build/$TAG' EXIT
for id in $IDS; do
  git -C $WT checkout -q -- . ; git -C $WT clean -fdq
  git -C $WT apply /verif/seeded/$id/patch.diff || { echo "SEEDED $id: patch does not apply"; continue; }
  checks=$(python3 -c "import json;print(' '.join(json.load(open('/verif/seeded/$id/meta.json'))['detected_by']))")
  res=""
  for c in $checks; do
    out=$(cd /verif && VERIF_REPO=$WT VERIF_BUILD_TAG=$TAG VERIF_TIER=quick timeout 3600 bin/check $c 2>&1); rc=$?
    res="$res $c:exit=$rc"
  done
  echo "SEEDED $id |$res"
done
