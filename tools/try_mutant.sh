#!/bin/bash
# tools/try_mutant.sh <PROPERTY> <dir with patch.diff [demo.rs|demo.diff]> [check ids...]
# Confirms a seeded change in a scratch worktree (suite passes with it; demo fails with it and
# passes without it), then runs the given checks (default: the property's own) against it.
# Prints one summary line per step.  The worktree is removed afterwards.
set -u
PROP=$1; DIR=$(cd "$2" && pwd); shift 2
CHECKS=${*:-$PROP}
TAG=${MUT_TAG:-mut}
WT=/tmp/${TAG}_wt
export CARGO_NET_OFFLINE=true CARGO_TARGET_DIR=/tmp/${TAG}_target
git -C /repo worktree remove --force $WT >/dev/null 2>&1
git -C /repo worktree add -q $WT HEAD || exit 2
cleanup() { git -C /repo worktree remove --force $WT >/dev/null 2>&1; rm -rf /verif/build/$TAG; }
trap cleanup EXIT
cd $WT
run_demo() {
  if [ -f $DIR/demo.rs ]; then
    mkdir -p tests; cp $DIR/demo.rs tests/demo.rs
    cmd=$(cat $DIR/DEMO_CMD 2>/dev/null || echo "cargo test --offline --test demo")
    timeout 900 bash -c "$cmd" >/tmp/${TAG}_demo.log 2>&1; rc=$?
    rm -rf tests
  elif [ -f $DIR/demo.diff ]; then
    git apply $DIR/demo.diff || { echo "demo.diff does not apply"; return 99; }
    cmd=$(cat $DIR/DEMO_CMD 2>/dev/null || echo "cargo test --offline --lib")
    timeout 900 bash -c "$cmd" >/tmp/${TAG}_demo.log 2>&1; rc=$?
    git apply -R $DIR/demo.diff
  else
    echo "no demo"; return 98
  fi
  return $rc
}
# 1. demo on the clean tree must pass
run_demo; d0=$?
# 2. apply the change; the existing suite must pass; the demo must fail
git apply $DIR/patch.diff || { echo "RESULT $PROP $DIR patch does not apply"; exit 2; }
timeout 1800 cargo test --workspace --no-fail-fast --offline >/tmp/${TAG}_suite.log 2>&1; s=$?
passed=$(grep -E "^test result" /tmp/${TAG}_suite.log | head -1)
run_demo; d1=$?
echo "CONFIRM $PROP $(basename $DIR): demo_clean_rc=$d0 suite_with_change_rc=$s [$passed] demo_with_change_rc=$d1"
# 3. the checks, against the changed tree
cd /verif
for c in $CHECKS; do
  out=$(env -u CARGO_TARGET_DIR VERIF_REPO=$WT VERIF_BUILD_TAG=$TAG VERIF_TIER=${MUT_TIER:-quick} timeout 3600 bin/check $c 2>&1); rc=$?
  cls=$(echo "$out" | grep -E "^violation class=" | head -2 | cut -c1-300 | tr '\n' '|')
  echo "CHECK $PROP $(basename $DIR) $c exit=$rc $cls"
  if [ $rc -eq 1 ]; then
     mkdir -p /tmp/${TAG}_replays; cp /verif/build/$TAG/replays/${c}-*.json /tmp/${TAG}_replays/ 2>/dev/null
  fi
  echo "$out" | grep -E "HARNESS-ERROR" | head -3
done
