#!/usr/bin/env python3
"""Regenerates /verif/SENSITIVITY.md from seeded/*/meta.json, mutants/RESULTS.txt and tools/sensitivity_notes.json."""
import json, glob, os, re
notes = json.load(open('/verif/tools/sensitivity_notes.json'))
rows = [json.load(open(d + 'meta.json')) for d in sorted(glob.glob('/verif/seeded/*/'))]
out = []
out.append("# Sensitivity: which checks catch which changes\n")
out.append("All changes below compile, pass the repository's 187 unit tests + 7 doctests unedited, and break the named property. "
           "Every row was produced by `tools/try_mutant.sh` / `tools/run_seeded.sh` / `tools/run_mutants.sh`: scratch worktree of /repo HEAD (outside /repo and /verif, removed afterwards), "
           "`VERIF_REPO=<worktree> bin/check <ID>` at the quick tier; a detection means exit 1 with a `VIOLATION` line whose minimised replay file reproduced the same violation class in a fresh OS process.\n")
out.append("## 1. Changes written by independent sub-agents (`/verif/seeded/<id>/`)\n")
out.append("Each sub-agent was given only the text of one property and its own scratch worktree of /repo (nothing from /verif) and asked for three realistic changes "
           "that need something specific to manifest, each with a demonstration that fails with the change and passes without it; later rounds (ids `-r2m*` ... `-r7m*`) were "
           "additionally given a one-line description of every change already proposed for that property and asked for breakages of a different nature. "
           "I confirmed every change myself (column *confirmed*: demonstration on the clean tree / repository suite with the change / demonstration with the change) before keeping it.\n")
out.append("| id | breaks | what it needs to manifest | confirmed | detected by (quick tier) | first attempt | note |")
out.append("|---|---|---|---|---|---|---|")
n_first_miss = 0
for m in rows:
    c = m.get('confirmed') or ''
    mm = re.search(r'demo_clean_rc=(\d+) suite_with_change_rc=(\d+) \[test result: (\w+)\. (\d+) passed.*demo_with_change_rc=(\d+)', c)
    conf = "pass / pass (%s) / FAIL" % mm.group(4) if mm and mm.group(1) == '0' and mm.group(2) == '0' and mm.group(5) != '0' else c
    tho = m.get('thorough_only', [])
    det = ", ".join((x + " (THOROUGH tier only)") if x in tho else x for x in m['detected_by']) or "none"
    missed = [x['check'] for x in m['checks'] if x['exit'] == 0]
    if missed:
        det += " (not by %s)" % ", ".join(missed)
    own = [x for x in m['checks'] if x['check'] == m['breaks_property']]
    first = ""
    hist_missed = m.get('initially_missed_by', [])
    note = notes.get(m['id'], '')
    if hist_missed or note.startswith("initially"):
        first = "missed"
        n_first_miss += 1
    else:
        first = "caught"
    out.append("| %s | %s | %s | %s | %s | %s | %s |" % (m['id'], m['breaks_property'], m['needs_to_manifest'], conf, det, first, note))
total = len(rows)
undetected = [m['id'] for m in rows if not m['detected_by']]
thorough_only = [m['id'] for m in rows if m['detected_by'] and all(x in m.get('thorough_only', []) for x in m['detected_by'])]
out.append("\nSummary: %d of %d seeded changes are detected by at least one check at the quick tier%s. %d of them were missed (or mis-reported as harness errors) by the first version of the checks they were run against and led to the extensions listed in the notes and in DESIGN.md section 0.1.\n" % (total - len(undetected) - len(thorough_only), total, ((" (" + ", ".join(thorough_only) + " only at the thorough tier;") if thorough_only else " (") + (" undetected: " + ", ".join(undetected) + ")") if undetected or thorough_only else "", n_first_miss))
print("thorough-only", thorough_only)
out.append("## 2. Hand-written changes (`/verif/mutants/*.diff`, results in `/verif/mutants/RESULTS.txt`)\n")
out.append("From the list in DESIGN.md section 6. `tools/run_mutants.sh` applies each to a scratch worktree, runs the repository's own suite (all pass) and the quick check.\n")
out.append("| change | breaks | description | suite | check result |")
out.append("|---|---|---|---|---|")
nh = 0
for line in open('/verif/mutants/RESULTS.txt'):
    m = re.match(r'MUTANT (\S+) \| suite: test result: (\w+)\. (\d+) passed \|(.*)', line)
    if not m:
        continue
    nh += 1
    name = m.group(1)
    desc = open('/verif/mutants/%s.diff' % name).readline().strip('# \n')
    prop, desc2 = desc.split(':', 1) if ':' in desc else (desc, '')
    res = " ; ".join(re.findall(r'(C\d+:exit=\d)', m.group(4)))
    out.append("| %s | %s | %s | %s passed | %s |" % (name, prop.replace('breaks ', ''), desc2.strip(), m.group(3), res.replace('exit=1', 'DETECTED').replace('exit=0', 'missed').replace('exit=2', 'harness error')))
out.append("\nAll %d are detected. (One more, `Context::new()` sharing one process-global map, was dropped because the repository's own suite already fails with it.)\n" % nh)
out.append(open('/verif/tools/sensitivity_tail.md').read())
open('/verif/SENSITIVITY.md', 'w').write("\n".join(out))
print("seeded", total, "first-missed", n_first_miss, "undetected", undetected, "hand", nh)
