#!/bin/bash
# tools/run_benign.sh <patch.diff> [checks...] -- a behaviour-preserving change must not raise an alarm:
# applies the patch to a scratch worktree of /repo HEAD, runs the repository's suite and the given checks
# (default: all eight) against it; one line per check.  Removes the worktree afterwards.
set -u
PATCH=$(readlink -f "$1"); shift
CHECKS=${*:-C06 C07 C08 C13 C14 C15 C16 C18}
TAG=${MUT_TAG:-bn}; WT=/tmp/${TAG}_wt
git -C /repo worktree remove --force $WT >/dev/null 2>&1
git -C /repo worktree add -q $WT HEAD || exit 2
trap 'git -C /repo worktree remove --force $WT >/dev/null 2>&1; rm -rf /verif/build/$TAG /tmp/${TAG}_target' EXIT
git -C $WT apply "$PATCH" || { echo "BENIGN $PATCH: patch does not apply"; exit 2; }
suite=$(cd $WT && CARGO_NET_OFFLINE=true CARGO_TARGET_DIR=/tmp/${TAG}_target timeout 1800 cargo test --workspace --no-fail-fast --offline 2>&1 | grep -E "^test result" | head -1 | sed 's/;.*finished.*//')
echo "BENIGN $PATCH | suite: $suite"
for c in $CHECKS; do
  out=$(cd /verif && VERIF_REPO=$WT VERIF_BUILD_TAG=$TAG VERIF_TIER=quick timeout 3600 bin/check $c 2>&1); rc=$?
  kf=$(echo "$out" | grep -c "^KNOWN-FINDING")
  first=$(echo "$out" | grep -E "^violation class=|^HARNESS-ERROR|^SEAM-LINT" | head -2 | cut -c1-260 | tr '\n' '|')
  echo "  $c exit=$rc known_findings=$kf $first"
done
