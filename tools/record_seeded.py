#!/usr/bin/env python3
"""tools/record_seeded.py <PROP> <mutant dir> <id> <needs...>  -- copy a confirmed seeded change into /verif/seeded/<id>/
and write meta.json from the evaluation logs in /tmp/mut_results/."""
import sys, os, shutil, json, glob, re
prop, src, sid = sys.argv[1], sys.argv[2], sys.argv[3]
needs = " ".join(sys.argv[4:])
dst = os.path.join("/verif/seeded", sid)
os.makedirs(dst, exist_ok=True)
for f in ("patch.diff", "demo.rs", "demo.diff", "DEMO_CMD", "NOTES.md"):
    p = os.path.join(src, f)
    if os.path.exists(p):
        shutil.copy(p, os.path.join(dst, f))
base = os.path.basename(src.rstrip("/"))
confirm, checks = None, []
logdirs = os.environ.get("LOGDIRS", "/tmp/mut_results").split(":")
logs = []
for d in logdirs:
    logs += glob.glob("%s/%s_%s*.log" % (d, prop, base))
for log in sorted(logs, key=os.path.getmtime):
    for line in open(log):
        if line.startswith("CONFIRM"):
            confirm = line.strip()
        m = re.match(r"CHECK (\S+) (\S+) (\S+) exit=(\d+) ?(.*)", line)
        if m:
            prev = [c for c in checks if c["check"] == m.group(3)]
            hist = (prev[0]["exit_history"] if prev else []) + [int(m.group(4))]
            checks = [c for c in checks if c["check"] != m.group(3)]
            checks.append({"check": m.group(3), "exit": int(m.group(4)), "exit_history": hist, "first_violation": m.group(5)[:400]})
meta = {
    "id": sid,
    "breaks_property": prop,
    "source": "independent sub-agent given only the property text and a scratch worktree of /repo (nothing from /verif)",
    "needs_to_manifest": needs,
    "confirmed": confirm,
    "what_i_ran": "tools/try_mutant.sh %s <dir> [checks]: scratch worktree of /repo HEAD; demo on the clean tree (must pass); git apply patch.diff; cargo test --workspace --no-fail-fast --offline (must pass); demo with the change (must fail); then VERIF_REPO=<worktree> bin/check <check> (quick tier)" % prop,
    "checks": checks,
    "detected_by": [c["check"] for c in checks if c["exit"] == 1],
    "initially_missed_by": [c["check"] for c in checks if c["exit"] == 1 and c["exit_history"][0] != 1],
}
json.dump(meta, open(os.path.join(dst, "meta.json"), "w"), indent=1)
print(sid, "detected_by", meta["detected_by"], "confirm:", (confirm or "")[:150])
