#![recursion_limit = "512"]
#![allow(dead_code, unused_assignments)]
//! simcheck — deterministic simulation of the expression engine with fault injection.
//!
//!   simcheck <PROPERTY>            run the check (VERIF_TIER=quick|thorough, VERIF_SEED=<int>)
//!   simcheck replay <file>         re-execute a replay file in this (fresh) process
//!   simcheck determinism [IDS..]   run seeds twice, in separate processes, 1 and N workers, and diff
//!   simcheck show <PROPERTY> <idx> print the case generated for an index
//!
//! exit 0 = held, 1 = violation (line `VIOLATION property=<id> replay=<path>`), 2 = harness error

mod case;
mod driver;
mod expr;
mod gen;
mod lin;
mod model;
mod modelcheck;
mod oracle;
mod prng;
mod prop;
mod props;
mod sched;
mod shrink;
mod simrt;

fn main() {
    let args: Vec<String> = std::env::args().skip(1).collect();
    let code = driver::main(&args);
    std::process::exit(code);
}
