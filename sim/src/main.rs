fn main(){ println!("hi"); }
