//! Linearizability of a recorded concurrent history against the engine run
//! sequentially (Wing & Gong search).  A call is (thread, invoke seq, return
//! seq, result); a witness is a total order of the calls that respects program
//! order and real-time order (A returned before B was invoked, by global event
//! sequence number) in which every call returns what the sequential engine
//! returns at that position.

use crate::case::*;
use crate::prop::Rt;
use crate::simrt::RunOutput;
use std::collections::{BTreeMap, HashMap, HashSet};
use std::sync::Arc;

#[derive(Clone, Debug)]
pub struct Call {
    pub id: OpId,
    pub task: usize,
    pub inv: usize,
    pub ret: usize,
    pub res: Res,
}

/// which handlers each operation invoked (with which arguments), in order: part of what a call "returned",
/// so that a sequential order must explain not only the value but also WHICH handler ran and how often
pub fn handlers_by_op(log: &[Ev]) -> BTreeMap<OpId, String> {
    let mut cur: BTreeMap<usize, OpId> = BTreeMap::new();
    let mut out: BTreeMap<OpId, String> = BTreeMap::new();
    for e in log {
        match e {
            Ev::Inv { op, task } => {
                cur.insert(*task, *op);
            }
            Ev::Ret { task, .. } => {
                cur.remove(task);
            }
            Ev::H { hid, task, args } => {
                if let Some(op) = cur.get(task) {
                    let sig = format!("h{}({});", hid, args.iter().map(|a| a.show()).collect::<Vec<_>>().join(","));
                    out.entry(*op).or_default().push_str(&sig);
                }
            }
            _ => {}
        }
    }
    out
}

fn with_handlers(res: &Res, sig: Option<&String>) -> Res {
    Res::Many(vec![res.clone(), Res::Text(sig.cloned().unwrap_or_default())])
}

pub fn calls_of(out: &RunOutput) -> Vec<Call> {
    let mut inv: BTreeMap<OpId, (usize, usize)> = BTreeMap::new();
    let mut calls = vec![];
    let sigs = handlers_by_op(&out.log);
    for (seq, e) in out.log.iter().enumerate() {
        match e {
            Ev::Inv { op, task } => {
                inv.insert(*op, (seq, *task));
            }
            Ev::Ret { op, res, .. } => {
                if let Some((i, task)) = inv.get(op) {
                    calls.push(Call { id: *op, task: *task, inv: *i, ret: seq, res: with_handlers(res, sigs.get(op)) });
                }
            }
            _ => {}
        }
    }
    calls
}

/// Sequential-engine oracle for one case, memoised by call sequence.
pub struct SeqOracle {
    case: Arc<Case>,
    memo: HashMap<Vec<OpId>, Vec<Res>>,
    pub runs: u64,
}

fn op_of<'a>(case: &'a Case, id: OpId) -> &'a Op {
    match id {
        OpId::Pre(i) => &case.pre[i],
        OpId::Thr(t, i) => &case.threads[t][i],
        OpId::Post(i) => &case.post[i],
    }
}

impl SeqOracle {
    pub fn new(case: &Arc<Case>) -> SeqOracle {
        SeqOracle { case: case.clone(), memo: HashMap::new(), runs: 0 }
    }

    /// results of the calls `order` executed one after the other, by one thread,
    /// after the case's `pre` operations, in a fresh simulated process
    pub fn results(&mut self, order: &[OpId], rt: &mut Rt) -> Vec<Res> {
        if let Some(r) = self.memo.get(order) {
            return r.clone();
        }
        let mut c = (*self.case).clone();
        c.threads = vec![];
        c.post = vec![];
        c.fault = None;
        let n0 = c.pre.len();
        for id in order {
            c.pre.push(op_of(&self.case, *id).clone());
        }
        let out = rt.oracle_sim(&Arc::new(c));
        self.runs += 1;
        let mut rs = vec![];
        let sigs = handlers_by_op(&out.log);
        for i in 0..order.len() {
            let id = OpId::Pre(n0 + i);
            let r = out.result_of(id).cloned().unwrap_or(Res::P("oracle run did not complete".into()));
            rs.push(with_handlers(&r, sigs.get(&id)));
        }
        for k in 1..=order.len() {
            self.memo.entry(order[..k].to_vec()).or_insert_with(|| rs[..k].to_vec());
        }
        rs
    }
}

pub enum LinResult {
    Linearizable(Vec<OpId>),
    NotLinearizable(String),
    Inconclusive,
}

pub fn check(calls: &[Call], oracle: &mut SeqOracle, rt: &mut Rt, node_budget: usize) -> LinResult {
    let n = calls.len();
    if n == 0 {
        return LinResult::Linearizable(vec![]);
    }
    assert!(n <= 30);
    // program order: calls of the same task in invocation order
    let mut order: Vec<usize> = (0..n).collect();
    order.sort_by_key(|i| calls[*i].inv);
    let mut nodes = 0usize;
    let mut failed: HashSet<(u32, Vec<OpId>)> = HashSet::new();
    let mut seq: Vec<usize> = vec![];
    let mut best: Vec<usize> = vec![];
    let mut why = String::new();

    fn reg_signature(calls: &[Call], seq: &[usize], case: &Case) -> Vec<OpId> {
        seq.iter().map(|i| calls[*i].id).filter(|id| op_of(case, *id).is_reg()).collect()
    }

    fn dfs(
        calls: &[Call],
        done: u32,
        seq: &mut Vec<usize>,
        oracle: &mut SeqOracle,
        rt: &mut Rt,
        nodes: &mut usize,
        budget: usize,
        failed: &mut HashSet<(u32, Vec<OpId>)>,
        best: &mut Vec<usize>,
        why: &mut String,
    ) -> Option<bool> {
        let n = calls.len();
        if seq.len() == n {
            return Some(true);
        }
        *nodes += 1;
        if *nodes > budget {
            return None;
        }
        let case = oracle.case.clone();
        let key = (done, reg_signature(calls, seq, &case));
        if failed.contains(&key) {
            return Some(false);
        }
        // minimal calls: not done, and no other pending call returned before this one was invoked
        let min_ret = (0..n).filter(|i| done & (1 << i) == 0).map(|i| calls[i].ret).min().unwrap();
        for i in 0..n {
            if done & (1 << i) != 0 || calls[i].inv > min_ret {
                continue;
            }
            // program order within a task
            if (0..n).any(|j| j != i && done & (1 << j) == 0 && calls[j].task == calls[i].task && calls[j].inv < calls[i].inv) {
                continue;
            }
            seq.push(i);
            let ids: Vec<OpId> = seq.iter().map(|k| calls[*k].id).collect();
            let rs = oracle.results(&ids, rt);
            let ok = rs.last().map(|r| r.same(&calls[i].res)).unwrap_or(false);
            if ok {
                if seq.len() > best.len() {
                    *best = seq.clone();
                }
                match dfs(calls, done | (1 << i), seq, oracle, rt, nodes, budget, failed, best, why) {
                    Some(true) => return Some(true),
                    None => return None,
                    Some(false) => {}
                }
            } else if seq.len() > best.len() {
                *why = format!(
                    "after [{}] the call {:?} returned {} but sequentially it returns {}",
                    seq[..seq.len() - 1].iter().map(|k| format!("{:?}", calls[*k].id)).collect::<Vec<_>>().join(", "),
                    calls[i].id,
                    calls[i].res.show(),
                    rs.last().map(|r| r.show()).unwrap_or_default()
                );
            }
            seq.pop();
        }
        failed.insert(key);
        Some(false)
    }

    match dfs(calls, 0, &mut seq, oracle, rt, &mut nodes, node_budget, &mut failed, &mut best, &mut why) {
        Some(true) => LinResult::Linearizable(seq.iter().map(|i| calls[*i].id).collect()),
        None => LinResult::Inconclusive,
        Some(false) => {
            let hist = order
                .iter()
                .map(|i| format!("{:?}@t{}[{}..{}]={}", calls[*i].id, calls[*i].task, calls[*i].inv, calls[*i].ret, calls[*i].res.show()))
                .collect::<Vec<_>>()
                .join("; ");
            LinResult::NotLinearizable(format!("no sequential order explains the history {{{}}}; deepest attempt: {}", hist, why))
        }
    }
}
