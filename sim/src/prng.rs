//! The only source of randomness in the harness: xoshiro256** seeded through
//! splitmix64 from (VERIF_SEED, labels...).  Logging never draws from it.

#[derive(Clone, Debug)]
pub struct Prng {
    s: [u64; 4],
}

pub fn splitmix(x: &mut u64) -> u64 {
    *x = x.wrapping_add(0x9E37_79B9_7F4A_7C15);
    let mut z = *x;
    z = (z ^ (z >> 30)).wrapping_mul(0xBF58_476D_1CE4_E5B9);
    z = (z ^ (z >> 27)).wrapping_mul(0x94D0_49BB_1331_11EB);
    z ^ (z >> 31)
}

/// FNV-1a followed by a splitmix finaliser: stable across runs, processes and
/// platforms (never `std::hash`'s randomised hasher).
pub fn h64(bytes: &[u8]) -> u64 {
    let mut h: u64 = 0xcbf2_9ce4_8422_2325;
    for b in bytes {
        h ^= *b as u64;
        h = h.wrapping_mul(0x0000_0100_0000_01B3);
    }
    let mut x = h;
    splitmix(&mut x)
}

pub fn mix(seed: u64, label: &str, n: u64) -> u64 {
    let mut x = seed ^ h64(label.as_bytes()).rotate_left(17) ^ n.wrapping_mul(0xD6E8_FEB8_6659_FD93);
    let a = splitmix(&mut x);
    let b = splitmix(&mut x);
    a ^ b.rotate_left(29)
}

impl Prng {
    pub fn new(seed: u64) -> Prng {
        let mut x = seed;
        let s = [splitmix(&mut x), splitmix(&mut x), splitmix(&mut x), splitmix(&mut x)];
        Prng { s }
    }
    pub fn derive(seed: u64, label: &str, n: u64) -> Prng {
        Prng::new(mix(seed, label, n))
    }
    pub fn next(&mut self) -> u64 {
        let r = self.s[1].wrapping_mul(5).rotate_left(7).wrapping_mul(9);
        let t = self.s[1] << 17;
        self.s[2] ^= self.s[0];
        self.s[3] ^= self.s[1];
        self.s[1] ^= self.s[2];
        self.s[0] ^= self.s[3];
        self.s[2] ^= t;
        self.s[3] = self.s[3].rotate_left(45);
        r
    }
    /// uniform in 0..n (n > 0)
    pub fn below(&mut self, n: u64) -> u64 {
        debug_assert!(n > 0);
        ((self.next() as u128 * n as u128) >> 64) as u64
    }
    pub fn usize(&mut self, n: usize) -> usize {
        self.below(n as u64) as usize
    }
    /// uniform in lo..=hi
    pub fn range(&mut self, lo: i64, hi: i64) -> i64 {
        lo + self.below((hi - lo + 1) as u64) as i64
    }
    pub fn chance(&mut self, num: u64, den: u64) -> bool {
        self.below(den) < num
    }
    pub fn pick<'a, T>(&mut self, xs: &'a [T]) -> &'a T {
        &xs[self.usize(xs.len())]
    }
    pub fn f64(&mut self) -> f64 {
        (self.next() >> 11) as f64 / (1u64 << 53) as f64
    }
    pub fn shuffle<T>(&mut self, xs: &mut [T]) {
        for i in (1..xs.len()).rev() {
            let j = self.usize(i + 1);
            xs.swap(i, j);
        }
    }
}
