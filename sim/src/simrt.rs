//! One simulated run: a `Case` executed against the REAL engine inside one
//! shuttle execution (= one fresh simulated process) under one `SchedSpec`.
//! Everything the engine can call (handlers, descriptors) is created here and
//! records into the history.

use crate::case::*;
use crate::expr::Val;
#[cfg(feature = "sim")]
use crate::sched::{SchedRecord, SchedSpec, SimScheduler};
use expression_engine::verif_hooks::DescriptorManager;
use expression_engine::{
    execute, parse_expression, register_function, register_infix_op, register_postfix_op, register_prefix_op, Context,
    ExprAST, InfixOpAssociativity, InfixOpType, Value,
};
use std::panic::{catch_unwind, AssertUnwindSafe};
use std::sync::atomic::{AtomicBool, Ordering};
use std::sync::{Arc, Mutex as StdMutex};

pub const INJECTED_PANIC: &str = "INJECTED-PANIC";

#[cfg(feature = "sim")]
#[derive(Clone, PartialEq, Eq, Debug)]
pub enum Verdict {
    Completed,
    /// all simulated tasks blocked (reported by the scheduler, not by a watchdog)
    Deadlock(String),
    /// the step budget was exceeded (bounded liveness)
    StepLimit,
    /// a panic escaped a simulated task (harness error unless it is a scheduler verdict)
    Crash(String),
}

#[cfg(feature = "sim")]
#[derive(Clone, Debug)]
pub struct RunOutput {
    pub log: Vec<Ev>,
    pub rec: SchedRecord,
    pub verdict: Verdict,
}

#[cfg(feature = "sim")]
impl RunOutput {
    pub fn result_of(&self, op: OpId) -> Option<&Res> {
        self.log.iter().find_map(|e| match e {
            Ev::Ret { op: o, res, .. } if *o == op => Some(res),
            _ => None,
        })
    }
    pub fn results(&self) -> Vec<(OpId, Res)> {
        self.log
            .iter()
            .filter_map(|e| match e {
                Ev::Ret { op, res, .. } => Some((*op, res.clone())),
                _ => None,
            })
            .collect()
    }
    /// (hid, args) of every handler invocation, in global order
    pub fn handler_log(&self) -> Vec<(usize, Vec<Val>)> {
        self.log
            .iter()
            .filter_map(|e| match e {
                Ev::H { hid, args, .. } => Some((*hid, args.clone())),
                _ => None,
            })
            .collect()
    }
    pub fn history_hash(&self) -> u64 {
        crate::prng::h64(serde_json::to_string(&self.log).unwrap().as_bytes())
    }
    pub fn schedule_hash(&self) -> u64 {
        let bytes: Vec<u8> = self.rec.choices.iter().flat_map(|c| c.to_le_bytes()).collect();
        crate::prng::h64(&bytes)
    }
}

/// Structural rendering of a returned AST through the PUBLIC enum (never through `{:?}`: the
/// derived Debug output is not part of any property).  Same text as `Expr::ast_debug`.
pub fn ast_text(ast: &ExprAST) -> String {
    fn list(xs: &[ExprAST]) -> String {
        xs.iter().map(ast_text).collect::<Vec<_>>().join(", ")
    }
    match ast {
        ExprAST::Literal(_) => {
            // the literal's payload type is private; its source rendering is public
            let t = ast.expr();
            if t == "true" || t == "false" {
                format!("Literal(Bool({}))", t)
            } else if t.len() >= 2 && t.starts_with('"') && t.ends_with('"') {
                format!("Literal(String({:?}))", &t[1..t.len() - 1])
            } else {
                format!("Literal(Number({}))", t)
            }
        }
        ExprAST::Reference(n) => format!("Reference({:?})", n),
        ExprAST::Function(n, args) => format!("Function({:?}, [{}])", n, list(args)),
        ExprAST::Unary(op, e) => format!("Unary({:?}, {})", op, ast_text(e)),
        ExprAST::Binary(op, l, r) => format!("Binary({:?}, {}, {})", op, ast_text(l), ast_text(r)),
        ExprAST::Postfix(e, op) => format!("Postfix({}, {:?})", ast_text(e), op),
        ExprAST::Ternary(c, a, b) => format!("Ternary({}, {}, {})", ast_text(c), ast_text(a), ast_text(b)),
        ExprAST::List(xs) => format!("List([{}])", list(xs)),
        ExprAST::Map(xs) => {
            format!("Map([{}])", xs.iter().map(|(k, v)| format!("({}, {})", ast_text(k), ast_text(v))).collect::<Vec<_>>().join(", "))
        }
        ExprAST::Stmt(xs) => format!("Stmt([{}])", list(xs)),
        ExprAST::None => "None".to_string(),
    }
}

type Sharer = Box<dyn Fn() -> Context + Send + Sync>;

fn sharer(c: &Context) -> Sharer {
    let h = c.0.clone();
    Box::new(move || {
        let mut n = Context::new();
        n.0 = h.clone();
        n
    })
}

struct SharedAsts {
    // field order = drop order: the ASTs borrow from `texts`
    asts: Vec<Option<Arc<ExprAST<'static>>>>,
    #[allow(dead_code)]
    texts: Vec<Arc<String>>,
}

struct Env {
    case: Arc<Case>,
    log: StdMutex<Vec<Ev>>,
    hcount: StdMutex<Vec<usize>>,
    slots: StdMutex<Vec<Arc<Sharer>>>,
    shared: StdMutex<SharedAsts>,
    /// one Arc per infix handler id: a user who registers the same closure twice (another name, or the
    /// same name with another precedence) passes clones of ONE Arc
    infix_arcs: StdMutex<std::collections::HashMap<usize, InfixArc>>,
    /// the application keeps its handler Arcs: a replaced handler is still alive elsewhere
    fn_arcs: StdMutex<std::collections::HashMap<usize, FnArc>>,
    unary_arcs: StdMutex<std::collections::HashMap<usize, UnaryArc>>,
}

type FnArc = Arc<dyn Fn(Vec<Value>) -> expression_engine::Result<Value> + Send + Sync>;
type UnaryArc = Arc<dyn Fn(Value) -> expression_engine::Result<Value> + Send + Sync>;

type InfixArc = Arc<dyn Fn(Value, Value) -> expression_engine::Result<Value> + Send + Sync>;

/// what a user's own thread-local does when its thread ends: use the engine once more
struct LastWords {
    env: Arc<Env>,
    ops: Vec<Op>,
    out: Arc<StdMutex<Vec<Res>>>,
}
impl Drop for LastWords {
    fn drop(&mut self) {
        let rs = self.ops.iter().map(|o| self.env.guarded(o)).collect::<Vec<_>>();
        self.out.lock().unwrap().extend(rs);
    }
}
#[cfg(feature = "sim")]
shuttle::thread_local! { static EXIT_HOOK: std::cell::RefCell<Option<LastWords>> = std::cell::RefCell::new(None); }
#[cfg(not(feature = "sim"))]
thread_local! { static EXIT_HOOK: std::cell::RefCell<Option<LastWords>> = std::cell::RefCell::new(None); }

#[cfg(feature = "sim")]
fn me() -> usize {
    usize::from(shuttle::current::me())
}
#[cfg(feature = "sim")]
use shuttle::thread::spawn as spawn_task;

// std backend (fidelity runs against the real std::sync::Mutex / once_cell build): task ids are
// assigned in spawn order exactly as the simulator does (main = 0)
#[cfg(not(feature = "sim"))]
thread_local! { static TASK_ID: std::cell::Cell<usize> = std::cell::Cell::new(0); }
#[cfg(not(feature = "sim"))]
static NEXT_TASK: std::sync::atomic::AtomicUsize = std::sync::atomic::AtomicUsize::new(1);
#[cfg(not(feature = "sim"))]
fn me() -> usize {
    TASK_ID.with(|t| t.get())
}
#[cfg(not(feature = "sim"))]
fn spawn_task<F, T>(f: F) -> std::thread::JoinHandle<T>
where
    F: FnOnce() -> T + Send + 'static,
    T: Send + 'static,
{
    let id = NEXT_TASK.fetch_add(1, Ordering::SeqCst);
    std::thread::spawn(move || {
        TASK_ID.with(|t| t.set(id));
        f()
    })
}

/// the engine's error type, reached through the public `Result` alias (its module is private)
trait ErrOf {
    type E;
}
impl<T, E> ErrOf for std::result::Result<T, E> {
    type E = E;
}
type EngineError = <expression_engine::Result<()> as ErrOf>::E;

fn mk_err(k: usize) -> expression_engine::Result<Value> {
    // this is how a user handler fails; the error variant rotates with the invocation index
    // (which variant a handler returns must not matter to the engine)
    Err(match k % 12 {
        0 => EngineError::ShouldBeBool(),
        1 => EngineError::ShouldBeNumber(),
        2 => EngineError::InvalidInteger,
        3 => EngineError::ShouldBeString(),
        4 => EngineError::ShouldBeList(),
        5 => EngineError::ReferenceNotExist("injected".to_string()),
        6 => EngineError::FunctionNotExist("injected".to_string()),
        7 => EngineError::InnerFunctionNotRegistered("injected".to_string()),
        8 => EngineError::NotReferenceExpr,
        9 => EngineError::UnexpectedEOF(0),
        10 => EngineError::PrefixOpNotRegistered("injected".to_string()),
        _ => EngineError::ParamInvalid(),
    })
}

fn payload_string(p: Box<dyn std::any::Any + Send>) -> String {
    if let Some(s) = p.downcast_ref::<String>() {
        s.clone()
    } else if let Some(s) = p.downcast_ref::<&str>() {
        s.to_string()
    } else {
        "<non-string panic payload>".to_string()
    }
}

// the simulated tasks that are inside a self-describing descriptor right now.  Deliberately NOT a
// thread-local: a descriptor may run while its thread ends (Op::OnThreadExit), when a simulated
// thread-local of the harness would already be destroyed.  Key = (worker OS thread, simulated task).
static DESC_ACTIVE: StdMutex<Vec<(std::thread::ThreadId, usize)>> = StdMutex::new(Vec::new());
struct DescActive((std::thread::ThreadId, usize));
impl Drop for DescActive {
    fn drop(&mut self) {
        DESC_ACTIVE.lock().unwrap_or_else(|e| e.into_inner()).retain(|k| *k != self.0);
    }
}

/// one marker-descriptor registration through the given handle; ids >= REENTRANT_DESC re-enter the
/// engine from inside the descriptor
fn set_desc(m: &mut DescriptorManager, kind: DKind, name: &str, id: usize) {
    fn mark(id: usize, parts: String) -> String {
        if id >= EMPTY_DESC {
            String::new()
        } else if id >= SELF_DESC {
            let key = (std::thread::current().id(), me());
            {
                let mut g = DESC_ACTIVE.lock().unwrap_or_else(|e| e.into_inner());
                if g.contains(&key) {
                    return format!("<{}|{}|~>", id, parts);
                }
                g.push(key);
            }
            let _active = DescActive(key);
            let text = crate::expr::Prog::one(self_desc_program()).text();
            let inner = match parse_expression(&text) {
                Ok(a) => a.describe(),
                Err(e) => format!("ERR {}", e),
            };
            drop(_active);
            format!("<{}|{}|{}>", id, parts, inner)
        } else if id >= REG_DESC {
            let mut m = DescriptorManager::new();
            set_desc(&mut m, DKind::Reference, "inner_r", REG_INNER_ID);
            drop(m);
            let inner = match parse_expression("inner_r") {
                Ok(a) => a.describe(),
                Err(e) => format!("ERR {}", e),
            };
            format!("<{}|{}|{}>", id, parts, inner)
        } else if id >= REENTRANT_DESC {
            let inner = match parse_expression("inner_q") {
                Ok(a) => a.describe(),
                Err(e) => format!("ERR {}", e),
            };
            format!("<{}|{}|{}>", id, parts, inner)
        } else {
            format!("<{}|{}>", id, parts)
        }
    }
    let name = name.to_string();
    match kind {
        DKind::Unary => m.set_unary_descriptor(name, Arc::new(move |a, b| mark(id, format!("{}|{}", a, b)))),
        DKind::Binary => m.set_binary_descriptor(name, Arc::new(move |a, b, c| mark(id, format!("{}|{}|{}", a, b, c)))),
        DKind::Postfix => m.set_postfix_descriptor(name, Arc::new(move |a, b| mark(id, format!("{}|{}", a, b)))),
        DKind::Ternary => m.set_ternary_descriptor(Arc::new(move |a, b, c| mark(id, format!("{}|{}|{}", a, b, c)))),
        DKind::Function => m.set_function_descriptor(name, Arc::new(move |a, xs: Vec<String>| mark(id, format!("{}|{}", a, xs.join("|"))))),
        DKind::Reference => m.set_reference_descriptor(name, Arc::new(move |a| mark(id, a))),
        DKind::List => m.set_list_descriptor(Arc::new(move |xs: Vec<String>| mark(id, xs.join("|")))),
        DKind::Map => m.set_map_descriptor(Arc::new(move |xs: Vec<(String, String)>| {
            mark(id, xs.into_iter().map(|(k, v)| format!("{}=>{}", k, v)).collect::<Vec<_>>().join("|"))
        })),
        DKind::Chain => m.set_chain_descriptor(Arc::new(move |xs: Vec<String>| mark(id, xs.join("|")))),
    }
}

impl Env {
    fn push(&self, e: Ev) {
        self.log.lock().unwrap().push(e);
    }

    fn slot(&self, i: usize) -> Context {
        let s = self.slots.lock().unwrap()[i].clone();
        s()
    }

    fn build_ctx(self: &Arc<Env>, spec: &CtxSpec) -> Context {
        let mut c = Context::new();
        for (k, v) in &spec.vars {
            c.set_variable(k, v.to_engine());
        }
        for (k, h) in &spec.funcs {
            c.set_func(k, self.fn_handler(*h));
        }
        c
    }

    fn ctx(self: &Arc<Env>, r: &CtxRef) -> Context {
        match r {
            CtxRef::Fresh(spec) => self.build_ctx(spec),
            CtxRef::Slot(i) => self.slot(*i),
        }
    }

    fn fn_handler(self: &Arc<Env>, hid: usize) -> FnArc {
        let env = self.clone();
        self.fn_arcs.lock().unwrap().entry(hid).or_insert_with(|| Arc::new(move |args| env.invoke(hid, args))).clone()
    }

    fn unary_handler(self: &Arc<Env>, hid: usize) -> UnaryArc {
        let env = self.clone();
        self.unary_arcs.lock().unwrap().entry(hid).or_insert_with(|| Arc::new(move |a| env.invoke(hid, vec![a]))).clone()
    }

    fn invoke(self: &Arc<Env>, hid: usize, args: Vec<Value>) -> expression_engine::Result<Value> {
        let task = me();
        let vals: Vec<Val> = args.iter().map(Val::from_engine).collect();
        self.push(Ev::H { hid, task, args: vals.clone() });
        let k = {
            let mut hc = self.hcount.lock().unwrap();
            if hc.len() <= task {
                hc.resize(task + 1, 0);
            }
            hc[task] += 1;
            hc[task] - 1
        };
        let spec = self.case.handlers[hid].clone();
        for (idx, a) in spec.actions.iter().enumerate() {
            let res = self.exec_op(a);
            self.push(Ev::Act { hid, task, idx, res });
        }
        if let Some(f) = &self.case.fault {
            if f.hits(task, k) {
                self.push(Ev::Fault { hid, task, kind: f.kind });
                match f.kind {
                    FaultKind::Err => return mk_err(k),
                    FaultKind::Panic => panic!("{} h{} k{}", INJECTED_PANIC, hid, k),
                }
            }
        }
        if let Ret::Fail = &spec.ret {
            return mk_err(hid);
        }
        if let Ret::Delegate(prog, ctx) = &spec.ret {
            let c = self.build_ctx(ctx);
            return execute(&prog.text(), c);
        }
        Ok(match &spec.ret {
            Ret::Delegate(..) | Ret::Fail => unreachable!(),
            Ret::Marker => {
                let mut xs = vec![Value::String(format!("h{}", hid))];
                xs.extend(args);
                Value::List(xs)
            }
            Ret::Const(v) => v.to_engine(),
            Ret::Arg(i) => args.get(*i).cloned().unwrap_or(Value::None),
            Ret::DumpSlot(s) => match self.dump(&self.slot(*s)) {
                Res::Dump(d) => Value::List(
                    d.into_iter().map(|(k, v)| Value::List(vec![Value::String(k), Value::String(v)])).collect(),
                ),
                other => Value::String(other.show()),
            },
        })
    }

    /// sorted dump of a context through its public handle and accessors
    fn dump(&self, c: &Context) -> Res {
        let mut keys: Vec<String> = match c.0.lock() {
            Ok(g) => g.keys().cloned().collect(),
            Err(_) => return Res::P("context lock poisoned".to_string()),
        };
        keys.sort();
        let mut out = vec![];
        for k in keys {
            let v = match c.get_variable(&k) {
                Some(v) => Val::from_engine(&v).show(),
                None => "<func>".to_string(),
            };
            out.push((k, v));
        }
        Res::Dump(out)
    }

    fn eval_res(r: expression_engine::Result<Value>) -> Res {
        match r {
            Ok(v) => Res::V(Val::from_engine(&v)),
            Err(e) => Res::E(e.to_string()),
        }
    }

    fn exec_op(self: &Arc<Env>, op: &Op) -> Res {
        match op {
            Op::RegFn { name, h } => {
                register_function(name, self.fn_handler(*h));
                Res::Unit
            }
            Op::RegPre { name, h } => {
                register_prefix_op(name, self.unary_handler(*h));
                Res::Unit
            }
            Op::RegPost { name, h } => {
                register_postfix_op(name, self.unary_handler(*h));
                Res::Unit
            }
            Op::RegIn { name, prec, setter, right, h } => {
                let (env, hid) = (self.clone(), *h);
                let f: InfixArc = self
                    .infix_arcs
                    .lock()
                    .unwrap()
                    .entry(hid)
                    .or_insert_with(|| Arc::new(move |a, b| env.invoke(hid, vec![a, b])))
                    .clone();
                register_infix_op(
                    name,
                    *prec,
                    if *setter { InfixOpType::SETTER } else { InfixOpType::CALC },
                    if *right { InfixOpAssociativity::RIGHT } else { InfixOpAssociativity::LEFT },
                    f,
                );
                Res::Unit
            }
            Op::Exec { prog, ctx } => {
                let c = self.ctx(ctx);
                let keep = sharer(&c);
                let text = prog.text();
                let r = Self::eval_res(execute(&text, c));
                Res::Many(vec![r, self.dump(&keep())])
            }
            Op::ExecSole { prog, slot } => {
                let text = prog.text();
                let mut c = self.slot(*slot);
                // from here on the slot hands out upgrades of a Weak handle; the strong sharer is dropped
                let weak = Arc::downgrade(&c.0);
                let weak_sharer: Sharer = Box::new(move || {
                    let mut n = Context::new();
                    n.0 = weak.upgrade().expect("the evaluating context is alive while its evaluation runs");
                    n
                });
                let old = std::mem::replace(&mut self.slots.lock().unwrap()[*slot], Arc::new(weak_sharer));
                drop(old);
                // (a panic of the evaluation passes through here: the slot gets its strong sharer back first)
                let r = std::panic::catch_unwind(std::panic::AssertUnwindSafe(|| match parse_expression(&text) {
                    Ok(ast) => Self::eval_res(ast.exec(&mut c)),
                    Err(e) => Res::E(e.to_string()),
                }));
                self.slots.lock().unwrap()[*slot] = Arc::new(sharer(&c));
                let r = match r {
                    Ok(r) => r,
                    Err(p) => std::panic::resume_unwind(p),
                };
                Res::Many(vec![r, self.dump(&c)])
            }
            Op::Parse { prog } => {
                let text = prog.text();
                match parse_expression(&text) {
                    Ok(ast) => Res::Ast(ast_text(&ast)),
                    Err(e) => Res::E(e.to_string()),
                }
            }
            Op::ParseExec { prog, ctx, times } => {
                let text = prog.text();
                let ast = match parse_expression(&text) {
                    Ok(ast) => ast,
                    Err(e) => return Res::E(e.to_string()),
                };
                let mut out = vec![Res::Ast(ast_text(&ast))];
                for _ in 0..*times {
                    let mut c = self.ctx(ctx);
                    let r = Self::eval_res(ast.exec(&mut c));
                    out.push(r);
                    out.push(self.dump(&c));
                }
                Res::Many(out)
            }
            Op::ExecShared { ast, ctx } => {
                let a = self.shared.lock().unwrap().asts.get(*ast).cloned().flatten();
                match a {
                    None => Res::E("shared program did not parse".to_string()),
                    Some(a) => {
                        let mut c = self.ctx(ctx);
                        let r = Self::eval_res(a.exec(&mut c));
                        Res::Many(vec![r, self.dump(&c)])
                    }
                }
            }
            Op::CtxGetVar { slot, name } => Res::Opt(self.slot(*slot).get_variable(name).map(|v| Val::from_engine(&v))),
            Op::CtxHasFunc { slot, name } => Res::Flag(self.slot(*slot).get_func(name).is_some()),
            Op::CtxGet { slot, name } => {
                let c = self.slot(*slot);
                Res::Text(match c.get(name) {
                    None => "absent".to_string(),
                    Some(_) => match c.get_variable(name) {
                        Some(v) => format!("var {}", Val::from_engine(&v).show()),
                        None => "func".to_string(),
                    },
                })
            }
            Op::CtxValue { slot, name } => Self::eval_res(self.slot(*slot).value(name)),
            Op::CtxSetVar { slot, name, val } => {
                self.slot(*slot).set_variable(name, val.to_engine());
                Res::Unit
            }
            Op::CtxDump { slot } => self.dump(&self.slot(*slot)),
            Op::HandleRead { slot, name } => {
                let c = self.slot(*slot);
                let g = c.0.lock();
                match g {
                    Ok(g) => Res::Text(format!("present={} len={}", g.contains_key(name.as_str()), g.len())),
                    Err(_) => Res::P("context lock poisoned".to_string()),
                }
            }
            Op::HandleWrite { slot, name, val } => {
                // a ContextValue can only be obtained through the public accessors
                // (under a scratch name: the name written through the handle must reach the engine
                // through the handle ONLY)
                let mut tmp = Context::new();
                tmp.set_variable("verif_scratch_value", val.to_engine());
                let cv = tmp.get("verif_scratch_value").unwrap();
                let c = self.slot(*slot);
                let g = c.0.lock();
                match g {
                    Ok(mut g) => {
                        g.insert(name.clone(), cv);
                        Res::Unit
                    }
                    Err(_) => Res::P("context lock poisoned".to_string()),
                }
            }
            Op::SetDesc { kind, name, id } => {
                let mut m = DescriptorManager::new();
                set_desc(&mut m, *kind, name, *id);
                Res::Unit
            }
            Op::WithManager { regs, then } => {
                let mut m = DescriptorManager::new();
                for (kind, name, id) in regs {
                    set_desc(&mut m, *kind, name, *id);
                }
                let rs: Vec<Res> = then.iter().map(|o| self.guarded(o)).collect();
                drop(m);
                Res::Many(rs)
            }
            Op::Describe { prog } => {
                let text = prog.text();
                match parse_expression(&text) {
                    Ok(ast) => Res::Text(ast.describe()),
                    Err(e) => Res::E(e.to_string()),
                }
            }
            Op::Pause => {
                #[cfg(feature = "sim")]
                shuttle::thread::sleep(std::time::Duration::ZERO);
                #[cfg(not(feature = "sim"))]
                std::thread::yield_now();
                Res::Unit
            }
            Op::OnThreadExit { ops, late } => {
                let env = self.clone();
                let ops = ops.clone();
                let late = *late;
                let out: Arc<StdMutex<Vec<Res>>> = Arc::new(StdMutex::new(vec![]));
                let out2 = out.clone();
                let h = spawn_task(move || {
                    let last = LastWords { env: env.clone(), ops: ops.clone(), out: out2.clone() };
                    let mut last = Some(last);
                    if !late {
                        EXIT_HOOK.with(|c| *c.borrow_mut() = last.take());
                    }
                    let rs = ops.iter().map(|o| env.guarded(o)).collect::<Vec<_>>();
                    out2.lock().unwrap().extend(rs);
                    if late {
                        EXIT_HOOK.with(|c| *c.borrow_mut() = last.take());
                    }
                });
                match h.join() {
                    Ok(()) => Res::Many(std::mem::take(&mut *out.lock().unwrap())),
                    Err(p) => Res::P(payload_string(p)),
                }
            }
            Op::OnThread { ops } => {
                let env = self.clone();
                let ops = ops.clone();
                let h = spawn_task(move || ops.iter().map(|o| env.guarded(o)).collect::<Vec<_>>());
                match h.join() {
                    Ok(rs) => Res::Many(rs),
                    Err(p) => Res::P(payload_string(p)),
                }
            }
        }
    }

    fn guarded(self: &Arc<Env>, op: &Op) -> Res {
        match catch_unwind(AssertUnwindSafe(|| self.exec_op(op))) {
            Ok(r) => r,
            Err(p) => Res::P(payload_string(p)),
        }
    }

    fn do_op(self: &Arc<Env>, id: OpId, op: &Op) {
        let task = me();
        self.push(Ev::Inv { op: id, task });
        let res = self.guarded(op);
        self.push(Ev::Ret { op: id, task, res });
    }

    fn main_body(self: &Arc<Env>) {
        let case = self.case.clone();
        for spec in &case.slots {
            let c = self.build_ctx(spec);
            self.slots.lock().unwrap().push(Arc::new(sharer(&c)));
        }
        for p in &case.shared {
            let text = Arc::new(p.text());
            // SAFETY: the text is kept alive in `SharedAsts.texts`, which is dropped after `asts`
            let st: &'static str = unsafe { std::mem::transmute::<&str, &'static str>(text.as_str()) };
            let ast = match catch_unwind(AssertUnwindSafe(|| parse_expression(st))) {
                Ok(Ok(a)) => Some(Arc::new(a)),
                _ => None,
            };
            let mut sh = self.shared.lock().unwrap();
            sh.asts.push(ast);
            sh.texts.push(text);
        }
        for (i, op) in case.pre.iter().enumerate() {
            self.do_op(OpId::Pre(i), op);
        }
        let mut hs = vec![];
        for (t, ops) in case.threads.iter().enumerate() {
            let env = self.clone();
            let ops = ops.clone();
            hs.push(spawn_task(move || {
                for (i, op) in ops.iter().enumerate() {
                    env.do_op(OpId::Thr(t, i), op);
                }
            }));
        }
        for h in hs {
            let _ = h.join();
        }
        for (i, op) in case.post.iter().enumerate() {
            self.do_op(OpId::Post(i), op);
        }
    }
}

static HOOK_SET: AtomicBool = AtomicBool::new(false);
pub static LAST_PANIC: StdMutex<String> = StdMutex::new(String::new());

/// shuttle installs (once per process) a panic hook that prints on every panic,
/// including the injected ones we catch; replace it with a quiet recorder.
fn quiet_hook() {
    if !HOOK_SET.swap(true, Ordering::SeqCst) {
        if std::env::var("VERIF_LOUD").is_ok() {
            // debugging aid: keep the default hook (prints every panic, with a backtrace if asked for)
            let _ = std::panic::take_hook();
            return;
        }
        std::panic::set_hook(Box::new(|info| {
            if let Ok(mut g) = LAST_PANIC.lock() {
                *g = info.to_string();
            }
        }));
    }
}

pub const MAX_STEPS: usize = 200_000;

/// let shuttle install its (once-per-process) hook during a trivial execution, then replace it
#[cfg(feature = "sim")]
pub fn ensure_hook() {
    if !HOOK_SET.load(Ordering::SeqCst) {
        let r = Arc::new(StdMutex::new(SchedRecord::default()));
        let mut c0 = shuttle::Config::new();
        c0.failure_persistence = shuttle::FailurePersistence::None;
        c0.silence_warnings = true;
        shuttle::Runner::new(SimScheduler::new(SchedSpec::Lowest, r), c0).run(|| {});
        quiet_hook();
    }
}

#[cfg(feature = "sim")]
pub fn run_case(case: &Arc<Case>, spec: &SchedSpec) -> RunOutput {
    let env = Arc::new(Env {
        case: case.clone(),
        log: StdMutex::new(vec![]),
        hcount: StdMutex::new(vec![]),
        slots: StdMutex::new(vec![]),
        shared: StdMutex::new(SharedAsts { asts: vec![], texts: vec![] }),
        infix_arcs: StdMutex::new(std::collections::HashMap::new()),
        fn_arcs: StdMutex::new(std::collections::HashMap::new()),
        unary_arcs: StdMutex::new(std::collections::HashMap::new()),
    });
    let rec = Arc::new(StdMutex::new(SchedRecord::default()));
    let mut cfg = shuttle::Config::new();
    // (deep re-entrant chains recurse through parser, evaluator and harness a hundred times)
    cfg.stack_size = if case.tag == "deep-chain" { 1 << 24 } else { 1 << 19 };
    cfg.failure_persistence = shuttle::FailurePersistence::None;
    // bounded liveness: the budget grows with the size of the case (a 2000-operation history legitimately
    // takes a few hundred scheduling steps per operation)
    cfg.max_steps = shuttle::MaxSteps::FailAfter(MAX_STEPS + 5_000 * case.n_ops());
    cfg.silence_warnings = true;
    let runner = shuttle::Runner::new(SimScheduler::new(spec.clone(), rec.clone()), cfg);
    let env2 = env.clone();
    ensure_hook();
    let outcome = catch_unwind(AssertUnwindSafe(move || {
        runner.run(move || env2.main_body());
    }));
    let verdict = match outcome {
        Ok(()) => Verdict::Completed,
        Err(p) => {
            let s = payload_string(p);
            if s.starts_with("deadlock!") {
                Verdict::Deadlock(s)
            } else if s.contains("exceeded max_steps") {
                Verdict::StepLimit
            } else {
                Verdict::Crash(s)
            }
        }
    };
    let log = env.log.lock().map(|g| g.clone()).unwrap_or_else(|p| p.into_inner().clone());
    let rec = rec.lock().unwrap().clone();
    // break the reference cycle Env -> kept contexts -> context-function handlers -> Env
    if let Ok(mut s) = env.slots.lock() {
        s.clear();
    }
    if let Ok(mut s) = env.shared.lock() {
        s.asts.clear();
    }
    if let Ok(mut s) = env.infix_arcs.lock() {
        s.clear();
    }
    if let Ok(mut s) = env.fn_arcs.lock() {
        s.clear();
    }
    if let Ok(mut s) = env.unary_arcs.lock() {
        s.clear();
    }
    RunOutput { log, rec, verdict }
}

/// std backend: run the case on real OS threads against the real primitives, in THIS process
/// (the caller gives every case its own process), and return the recorded history
#[cfg(not(feature = "sim"))]
pub fn run_case_std(case: &Arc<Case>) -> Vec<Ev> {
    quiet_hook();
    let env = Arc::new(Env {
        case: case.clone(),
        log: StdMutex::new(vec![]),
        hcount: StdMutex::new(vec![]),
        slots: StdMutex::new(vec![]),
        shared: StdMutex::new(SharedAsts { asts: vec![], texts: vec![] }),
        infix_arcs: StdMutex::new(std::collections::HashMap::new()),
        fn_arcs: StdMutex::new(std::collections::HashMap::new()),
        unary_arcs: StdMutex::new(std::collections::HashMap::new()),
    });
    let e2 = env.clone();
    let _ = catch_unwind(AssertUnwindSafe(move || e2.main_body()));
    let log = env.log.lock().map(|g| g.clone()).unwrap_or_else(|p| p.into_inner().clone());
    log
}
