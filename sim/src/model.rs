//! Executable reference model of the engine's *behavioural contract*: order,
//! once-ness, laziness, binding, dispatch, cut-off at the first failure,
//! registration = last writer wins, describe() = registered descriptor or default.
//! The value-level meaning of the built-in operators is NOT modelled here: it is
//! delegated to a `Calc` (the engine itself used as a calculator on scratch
//! contexts), because that meaning belongs to properties that are not claimed.

use crate::case::*;
use crate::expr::*;
use std::cell::RefCell;
use std::collections::BTreeMap;
use std::rc::Rc;

pub trait Calc {
    fn infix(&mut self, op: &str, a: &Val, b: &Val) -> Result<Val, CalcFail>;
    fn prefix(&mut self, op: &str, a: &Val) -> Result<Val, CalcFail>;
    fn postfix(&mut self, op: &str, a: &Val) -> Result<Val, CalcFail>;
    fn func(&mut self, name: &str, args: &[Val]) -> Result<Val, CalcFail>;
}

#[derive(Clone, Debug, PartialEq, Eq)]
pub enum CalcFail {
    Err,
    /// the calculator itself misbehaved (panic): outside the modelled domain
    Broken(String),
}

#[derive(Clone, Debug)]
pub enum Stop {
    Err(String),
    Panic(String),
    Unmodelled(String),
}

#[derive(Clone, Debug, PartialEq, Eq)]
pub enum Impl {
    Builtin,
    H(usize),
}

#[derive(Clone, Debug)]
pub struct InfixEntry {
    pub prec: i32,
    pub setter: bool,
    pub right: bool,
    pub imp: Impl,
}

#[derive(Clone, Debug)]
pub struct MReg {
    pub funcs: BTreeMap<String, Impl>,
    pub prefix: BTreeMap<String, Impl>,
    pub infix: BTreeMap<String, InfixEntry>,
    pub postfix: BTreeMap<String, Impl>,
}

pub const BUILTIN_INFIX: &[(&str, i32, bool, bool)] = &[
    ("=", 20, true, true),
    ("+=", 20, true, true),
    ("-=", 20, true, true),
    ("*=", 20, true, true),
    ("/=", 20, true, true),
    ("%=", 20, true, true),
    ("<<=", 20, true, true),
    (">>=", 20, true, true),
    ("&=", 20, true, true),
    ("^=", 20, true, true),
    ("|=", 20, true, true),
    ("||", 40, false, false),
    ("&&", 50, false, false),
    ("<", 60, false, false),
    ("<=", 60, false, false),
    (">", 60, false, false),
    (">=", 60, false, false),
    ("==", 60, false, false),
    ("!=", 60, false, false),
    ("|", 70, false, false),
    ("^", 80, false, false),
    ("&", 90, false, false),
    ("<<", 100, false, false),
    (">>", 100, false, false),
    ("+", 110, false, false),
    ("-", 110, false, false),
    ("*", 120, false, false),
    ("/", 120, false, false),
    ("%", 120, false, false),
    ("beginWith", 200, false, false),
    ("endWith", 200, false, false),
    ("in", 200, false, false),
];
pub const BUILTIN_PREFIX: &[&str] = &["-", "+", "!", "not", "AND", "OR"];
pub const BUILTIN_POSTFIX: &[&str] = &["++", "--"];
pub const BUILTIN_FUNCS: &[&str] = &["min", "max", "sum", "mul"];

impl MReg {
    pub fn builtin() -> MReg {
        MReg {
            funcs: BUILTIN_FUNCS.iter().map(|n| (n.to_string(), Impl::Builtin)).collect(),
            prefix: BUILTIN_PREFIX.iter().map(|n| (n.to_string(), Impl::Builtin)).collect(),
            infix: BUILTIN_INFIX
                .iter()
                .map(|(n, p, s, r)| (n.to_string(), InfixEntry { prec: *p, setter: *s, right: *r, imp: Impl::Builtin }))
                .collect(),
            postfix: BUILTIN_POSTFIX.iter().map(|n| (n.to_string(), Impl::Builtin)).collect(),
        }
    }
    /// textbook precedence climbing over this table
    pub fn group_chain(&self, operands: &[Expr], ops: &[String]) -> Result<Expr, String> {
        fn climb(reg: &MReg, operands: &[Expr], ops: &[String], pos: &mut usize, min: i64) -> Result<Expr, String> {
            let mut lhs = operands[*pos].clone();
            loop {
                if *pos >= ops.len() {
                    return Ok(lhs);
                }
                let op = &ops[*pos];
                let e = reg.infix.get(op).ok_or_else(|| format!("chain operator {} not registered in the model", op))?;
                let p = e.prec as i64;
                if p < min {
                    return Ok(lhs);
                }
                *pos += 1;
                let rhs = climb(reg, operands, ops, pos, if e.right { p } else { p + 1 })?;
                lhs = bin(op, lhs, rhs);
            }
        }
        let mut pos = 0;
        climb(self, operands, ops, &mut pos, 0)
    }
}

#[derive(Clone, Debug, PartialEq, Eq)]
pub enum MCv {
    Var(Val),
    Func(usize),
}

pub type MCtx = Rc<RefCell<BTreeMap<String, MCv>>>;

pub fn mctx_of(spec: &CtxSpec) -> MCtx {
    let mut m = BTreeMap::new();
    for (k, v) in &spec.vars {
        m.insert(k.clone(), MCv::Var(v.clone()));
    }
    for (k, h) in &spec.funcs {
        m.insert(k.clone(), MCv::Func(*h));
    }
    Rc::new(RefCell::new(m))
}

pub fn mdump(c: &MCtx) -> Res {
    Res::Dump(
        c.borrow()
            .iter()
            .map(|(k, v)| {
                (
                    k.clone(),
                    match v {
                        MCv::Var(v) => v.show(),
                        MCv::Func(_) => "<func>".to_string(),
                    },
                )
            })
            .collect(),
    )
}

pub struct Model<'a> {
    pub case: &'a Case,
    pub reg: MReg,
    pub desc: std::cell::RefCell<BTreeMap<(DKind, String), usize>>,
    pub slots: Vec<MCtx>,
    pub shared: Vec<Prog>,
    pub log: Vec<Ev>,
    hcount: Vec<usize>,
    next_task: usize,
    cur_task: usize,
    calc: &'a mut dyn Calc,
    /// nesting depth of self-describing descriptors (see case::SELF_DESC)
    desc_depth: std::cell::Cell<u32>,
    /// number of handler invocations made by each simulated task (reach)
    pub unmodelled: Option<String>,
}

pub struct ModelOut {
    pub log: Vec<Ev>,
    pub unmodelled: Option<String>,
    pub invocations: Vec<usize>,
}

impl ModelOut {
    pub fn result_of(&self, op: OpId) -> Option<&Res> {
        self.log.iter().find_map(|e| match e {
            Ev::Ret { op: o, res, .. } if *o == op => Some(res),
            _ => None,
        })
    }
}

pub fn run_model(case: &Case, calc: &mut dyn Calc) -> ModelOut {
    let mut m = Model {
        case,
        reg: MReg::builtin(),
        desc: std::cell::RefCell::new(BTreeMap::new()),
        slots: case.slots.iter().map(mctx_of).collect(),
        shared: case.shared.clone(),
        desc_depth: std::cell::Cell::new(0),
        log: vec![],
        hcount: vec![],
        next_task: 1,
        cur_task: 0,
        calc,
        unmodelled: None,
    };
    for (i, op) in case.pre.iter().enumerate() {
        m.do_op(OpId::Pre(i), op);
    }
    // threads are modelled one after the other: only valid for cases whose
    // threads are independent of each other (the generators guarantee it)
    let first = m.next_task;
    m.next_task += case.threads.len();
    for (t, ops) in case.threads.iter().enumerate() {
        m.cur_task = first + t;
        for (i, op) in ops.iter().enumerate() {
            m.do_op(OpId::Thr(t, i), op);
        }
    }
    m.cur_task = 0;
    for (i, op) in case.post.iter().enumerate() {
        m.do_op(OpId::Post(i), op);
    }
    ModelOut { log: m.log, unmodelled: m.unmodelled, invocations: m.hcount }
}

impl<'a> Model<'a> {
    fn do_op(&mut self, id: OpId, op: &Op) {
        let task = self.cur_task;
        self.log.push(Ev::Inv { op: id, task });
        let res = self.guarded(op);
        self.log.push(Ev::Ret { op: id, task, res });
    }

    fn guarded(&mut self, op: &Op) -> Res {
        match self.exec_op(op) {
            Ok(r) => r,
            Err(Stop::Panic(p)) => Res::P(p),
            Err(Stop::Err(e)) => Res::E(e),
            Err(Stop::Unmodelled(u)) => {
                if self.unmodelled.is_none() {
                    self.unmodelled = Some(u.clone());
                }
                Res::E(format!("UNMODELLED {}", u))
            }
        }
    }

    fn ctx(&mut self, r: &CtxRef) -> MCtx {
        match r {
            CtxRef::Fresh(spec) => mctx_of(spec),
            CtxRef::Slot(i) => self.slots[*i].clone(),
        }
    }

    fn eval_res(r: Result<Val, Stop>) -> Result<Res, Stop> {
        match r {
            Ok(v) => Ok(Res::V(v)),
            Err(Stop::Err(e)) => Ok(Res::E(e)),
            Err(other) => Err(other),
        }
    }

    fn prog_tree(&self, prog: &Prog) -> Result<Vec<Expr>, Stop> {
        match prog {
            Prog::Stmts(xs) => Ok(xs.clone()),
            Prog::Chain(operands, ops) => Ok(vec![self.reg.group_chain(operands, ops).map_err(Stop::Unmodelled)?]),
        }
    }

    /// every operator in the tree must be known to the model's registry with the
    /// right fixity, otherwise the text would not tokenize into this tree
    fn check_parsable(&self, e: &Expr) -> Result<(), Stop> {
        match e {
            // the parser turns ANY operator token in prefix position into a Unary node
            Expr::Un(op, _)
                if !self.reg.prefix.contains_key(op) && !self.reg.infix.contains_key(op) && !self.reg.postfix.contains_key(op) =>
            {
                return Err(Stop::Unmodelled(format!("prefix operator {} unknown to the model", op)))
            }
            Expr::Bin(op, _, _) if !self.reg.infix.contains_key(op) => {
                return Err(Stop::Unmodelled(format!("infix operator {} unknown to the model", op)))
            }
            Expr::Post(_, op) if !self.reg.postfix.contains_key(op) => {
                return Err(Stop::Unmodelled(format!("postfix operator {} unknown to the model", op)))
            }
            _ => {}
        }
        for c in e.children() {
            self.check_parsable(c)?;
        }
        Ok(())
    }

    fn parse(&self, prog: &Prog) -> Result<Vec<Expr>, Stop> {
        let t = self.prog_tree(prog)?;
        for e in &t {
            self.check_parsable(e)?;
        }
        Ok(t)
    }

    fn eval_stmts(&mut self, stmts: &[Expr], ctx: &MCtx) -> Result<Val, Stop> {
        let mut last = Val::None;
        for s in stmts {
            last = self.eval(s, ctx)?;
        }
        Ok(last)
    }

    fn exec_op(&mut self, op: &Op) -> Result<Res, Stop> {
        Ok(match op {
            Op::RegFn { name, h } => {
                self.reg.funcs.insert(name.clone(), Impl::H(*h));
                Res::Unit
            }
            Op::RegPre { name, h } => {
                self.reg.prefix.insert(name.clone(), Impl::H(*h));
                Res::Unit
            }
            Op::RegPost { name, h } => {
                self.reg.postfix.insert(name.clone(), Impl::H(*h));
                Res::Unit
            }
            Op::RegIn { name, prec, setter, right, h } => {
                self.reg
                    .infix
                    .insert(name.clone(), InfixEntry { prec: *prec, setter: *setter, right: *right, imp: Impl::H(*h) });
                Res::Unit
            }
            Op::Exec { prog, ctx } => {
                let c = self.ctx(ctx);
                let t = self.parse(prog)?;
                let r = Self::eval_res(self.eval_stmts(&t, &c))?;
                Res::Many(vec![r, mdump(&c)])
            }
            Op::ExecSole { prog, slot } => {
                // who owns the handle is invisible to the caller: the same as `Exec` on the slot
                let c = self.slots[*slot].clone();
                let t = self.parse(prog)?;
                let r = Self::eval_res(self.eval_stmts(&t, &c))?;
                Res::Many(vec![r, mdump(&c)])
            }
            Op::Parse { prog } => {
                let t = self.parse(prog)?;
                Res::Ast(stmts_ast_debug(&t))
            }
            Op::ParseExec { prog, ctx, times } => {
                let t = self.parse(prog)?;
                let mut out = vec![Res::Ast(stmts_ast_debug(&t))];
                for _ in 0..*times {
                    let c = self.ctx(ctx);
                    let r = Self::eval_res(self.eval_stmts(&t, &c))?;
                    out.push(r);
                    out.push(mdump(&c));
                }
                Res::Many(out)
            }
            Op::ExecShared { ast, ctx } => {
                // shared programs are parsed before `pre`: against the built-in table
                let prog = self.shared[*ast].clone();
                let t = match &prog {
                    Prog::Stmts(xs) => xs.clone(),
                    Prog::Chain(a, o) => vec![MReg::builtin().group_chain(a, o).map_err(Stop::Unmodelled)?],
                };
                let c = self.ctx(ctx);
                let r = Self::eval_res(self.eval_stmts(&t, &c))?;
                Res::Many(vec![r, mdump(&c)])
            }
            Op::CtxGetVar { slot, name } => Res::Opt(match self.slots[*slot].borrow().get(name) {
                Some(MCv::Var(v)) => Some(v.clone()),
                _ => None,
            }),
            Op::CtxHasFunc { slot, name } => Res::Flag(matches!(self.slots[*slot].borrow().get(name), Some(MCv::Func(_)))),
            Op::CtxGet { slot, name } => Res::Text(match self.slots[*slot].borrow().get(name) {
                None => "absent".to_string(),
                Some(MCv::Var(v)) => format!("var {}", v.show()),
                Some(MCv::Func(_)) => "func".to_string(),
            }),
            Op::CtxValue { slot, name } => {
                let c = self.slots[*slot].clone();
                Self::eval_res(self.eval(&Expr::Ref(name.clone()), &c))?
            }
            Op::CtxSetVar { slot, name, val } => {
                self.slots[*slot].borrow_mut().insert(name.clone(), MCv::Var(val.clone()));
                Res::Unit
            }
            Op::CtxDump { slot } => mdump(&self.slots[*slot]),
            Op::HandleRead { slot, name } => {
                let c = self.slots[*slot].borrow();
                Res::Text(format!("present={} len={}", c.contains_key(name), c.len()))
            }
            Op::HandleWrite { slot, name, val } => {
                self.slots[*slot].borrow_mut().insert(name.clone(), MCv::Var(val.clone()));
                Res::Unit
            }
            Op::SetDesc { kind, name, id } => {
                let key = if kind.named() { name.clone() } else { String::new() };
                self.desc.borrow_mut().insert((*kind, key), *id);
                Res::Unit
            }
            Op::Describe { prog } => {
                let t = self.parse(prog)?;
                Res::Text(self.describe_stmts(&t))
            }
            Op::WithManager { regs, then } => {
                // a registration is in effect when its set_* call returns, whatever handle it went through
                for (kind, name, id) in regs {
                    let key = if kind.named() { name.clone() } else { String::new() };
                    self.desc.borrow_mut().insert((*kind, key), *id);
                }
                let rs: Vec<Res> = then.iter().map(|o| self.guarded(o)).collect();
                Res::Many(rs)
            }
            Op::Pause => Res::Unit,
            Op::OnThreadExit { ops, .. } => {
                // a thread that is ending is a thread like any other: the operations, twice, in order
                let saved = self.cur_task;
                self.cur_task = self.next_task;
                self.next_task += 1;
                let mut rs: Vec<Res> = ops.iter().map(|o| self.guarded(o)).collect();
                rs.extend(ops.iter().map(|o| self.guarded(o)).collect::<Vec<_>>());
                self.cur_task = saved;
                Res::Many(rs)
            }
            Op::OnThread { ops } => {
                let saved = self.cur_task;
                self.cur_task = self.next_task;
                self.next_task += 1;
                let rs: Vec<Res> = ops.iter().map(|o| self.guarded(o)).collect();
                self.cur_task = saved;
                Res::Many(rs)
            }
        })
    }

    fn invoke(&mut self, hid: usize, args: Vec<Val>) -> Result<Val, Stop> {
        let task = self.cur_task;
        self.log.push(Ev::H { hid, task, args: args.clone() });
        if self.hcount.len() <= task {
            self.hcount.resize(task + 1, 0);
        }
        self.hcount[task] += 1;
        let k = self.hcount[task] - 1;
        let spec = self.case.handlers[hid].clone();
        for (idx, a) in spec.actions.iter().enumerate() {
            // a panic inside a re-entrant action unwinds through the handler
            let res = self.exec_op(a);
            let res = match res {
                Ok(r) => r,
                Err(Stop::Err(e)) => Res::E(e),
                Err(other) => return Err(other),
            };
            self.log.push(Ev::Act { hid, task, idx, res });
        }
        if let Some(f) = &self.case.fault {
            if f.hits(task, k) {
                self.log.push(Ev::Fault { hid, task, kind: f.kind });
                return Err(match f.kind {
                    FaultKind::Err => Stop::Err("injected".to_string()),
                    FaultKind::Panic => Stop::Panic(format!("{} h{} k{}", crate::simrt::INJECTED_PANIC, hid, k)),
                });
            }
        }
        if let Ret::Fail = &spec.ret {
            return Err(Stop::Err("handler always fails".to_string()));
        }
        if let Ret::Delegate(prog, ctx) = &spec.ret {
            let c = mctx_of(ctx);
            let t = self.parse(prog)?;
            return self.eval_stmts(&t, &c);
        }
        Ok(match &spec.ret {
            Ret::Delegate(..) | Ret::Fail => unreachable!(),
            Ret::Marker => {
                let mut xs = vec![Val::Str(format!("h{}", hid))];
                xs.extend(args);
                Val::List(xs)
            }
            Ret::Const(v) => v.clone(),
            Ret::Arg(i) => args.get(*i).cloned().unwrap_or(Val::None),
            Ret::DumpSlot(s) => match mdump(&self.slots[*s]) {
                Res::Dump(d) => Val::List(d.into_iter().map(|(k, v)| Val::List(vec![Val::Str(k), Val::Str(v)])).collect()),
                _ => unreachable!(),
            },
        })
    }

    fn calc_res(r: Result<Val, CalcFail>) -> Result<Val, Stop> {
        match r {
            Ok(v) => Ok(v),
            Err(CalcFail::Err) => Err(Stop::Err("built-in failed".to_string())),
            Err(CalcFail::Broken(m)) => Err(Stop::Unmodelled(format!("calculator: {}", m))),
        }
    }

    pub fn eval(&mut self, e: &Expr, ctx: &MCtx) -> Result<Val, Stop> {
        match e {
            Expr::Lit(v) => Ok(v.clone()),
            Expr::Ref(name) => {
                let cv = ctx.borrow().get(name).cloned();
                match cv {
                    None => Ok(Val::None),
                    Some(MCv::Var(v)) => Ok(v),
                    Some(MCv::Func(h)) => self.invoke(h, vec![]),
                }
            }
            Expr::Call(name, args) => {
                let mut vs = vec![];
                for a in args {
                    vs.push(self.eval(a, ctx)?);
                }
                let cv = ctx.borrow().get(name).cloned();
                if let Some(MCv::Func(h)) = cv {
                    return self.invoke(h, vs);
                }
                match self.reg.funcs.get(name).cloned() {
                    Some(Impl::H(h)) => self.invoke(h, vs),
                    Some(Impl::Builtin) => Self::calc_res(self.calc.func(name, &vs)),
                    None => Err(Stop::Err(format!("function {} not registered", name))),
                }
            }
            Expr::Un(op, x) => {
                let imp = self.reg.prefix.get(op).cloned().ok_or_else(|| Stop::Err(format!("prefix operator {} not registered", op)))?;
                let v = self.eval(x, ctx)?;
                match imp {
                    Impl::H(h) => self.invoke(h, vec![v]),
                    Impl::Builtin => Self::calc_res(self.calc.prefix(op, &v)),
                }
            }
            Expr::Post(x, op) => {
                let imp = self.reg.postfix.get(op).cloned().ok_or_else(|| Stop::Unmodelled(format!("postfix {}", op)))?;
                let v = self.eval(x, ctx)?;
                match imp {
                    Impl::H(h) => self.invoke(h, vec![v]),
                    Impl::Builtin => Self::calc_res(self.calc.postfix(op, &v)),
                }
            }
            Expr::Bin(op, l, r) => {
                let ent = self.reg.infix.get(op).cloned().ok_or_else(|| Stop::Unmodelled(format!("infix {}", op)))?;
                let a = self.eval(l, ctx)?;
                let b = self.eval(r, ctx)?;
                if ent.setter {
                    let name = match &**l {
                        Expr::Ref(n) => n.clone(),
                        _ => return Err(Stop::Err("assignment target is not a name".to_string())),
                    };
                    let v = match ent.imp {
                        Impl::H(h) => self.invoke(h, vec![a, b])?,
                        Impl::Builtin => {
                            if op == "=" {
                                b
                            } else {
                                let base = &op[..op.len() - 1];
                                Self::calc_res(self.calc.infix(base, &a, &b))?
                            }
                        }
                    };
                    ctx.borrow_mut().insert(name, MCv::Var(v));
                    Ok(Val::None)
                } else {
                    match ent.imp {
                        Impl::H(h) => self.invoke(h, vec![a, b]),
                        Impl::Builtin => Self::calc_res(self.calc.infix(op, &a, &b)),
                    }
                }
            }
            Expr::Tern(c, a, b) => match self.eval(c, ctx)? {
                Val::Bool(true) => self.eval(a, ctx),
                Val::Bool(false) => self.eval(b, ctx),
                _ => Err(Stop::Err("condition is not a boolean".to_string())),
            },
            Expr::List(xs) => {
                let mut vs = vec![];
                for x in xs {
                    vs.push(self.eval(x, ctx)?);
                }
                Ok(Val::List(vs))
            }
            Expr::Map(xs) => {
                let mut vs = vec![];
                for (k, v) in xs {
                    let kv = self.eval(k, ctx)?;
                    let vv = self.eval(v, ctx)?;
                    vs.push((kv, vv));
                }
                Ok(Val::Map(vs))
            }
        }
    }

    fn d(&self, kind: DKind, name: &str) -> Option<usize> {
        self.desc.borrow().get(&(kind, if kind.named() { name.to_string() } else { String::new() })).copied()
    }

    /// what a marker descriptor renders: `<id|parts>`; a re-entrant one (id >= REENTRANT_DESC)
    /// additionally describes the inner program `inner_q` from inside the descriptor
    fn mark(&self, id: usize, parts: String) -> String {
        if id >= crate::case::EMPTY_DESC {
            String::new()
        } else if id >= crate::case::SELF_DESC {
            if self.desc_depth.get() > 0 {
                return format!("<{}|{}|~>", id, parts);
            }
            self.desc_depth.set(1);
            let inner = self.describe(&crate::case::self_desc_program());
            self.desc_depth.set(0);
            format!("<{}|{}|{}>", id, parts, inner)
        } else if id >= crate::case::REG_DESC {
            self.desc.borrow_mut().insert((DKind::Reference, "inner_r".to_string()), crate::case::REG_INNER_ID);
            let inner = self.describe(&rf("inner_r"));
            format!("<{}|{}|{}>", id, parts, inner)
        } else if id >= crate::case::REENTRANT_DESC {
            let inner = self.describe(&rf("inner_q"));
            format!("<{}|{}|{}>", id, parts, inner)
        } else {
            format!("<{}|{}>", id, parts)
        }
    }

    pub fn describe_stmts(&self, stmts: &[Expr]) -> String {
        if stmts.len() == 1 {
            return self.describe(&stmts[0]);
        }
        let parts: Vec<String> = stmts.iter().map(|s| self.describe(s)).collect();
        match self.d(DKind::Chain, "") {
            Some(id) => self.mark(id, format!("{}", parts.join("|"))),
            None => parts.join(";"),
        }
    }

    pub fn describe(&self, e: &Expr) -> String {
        match e {
            Expr::Lit(Val::Bool(b)) => b.to_string(),
            Expr::Lit(Val::Num(s)) => s.clone(),
            Expr::Lit(Val::Str(s)) => format!("\"{}\"", s),
            Expr::Lit(_) => unreachable!(),
            Expr::Ref(n) => match self.d(DKind::Reference, n) {
                Some(id) => self.mark(id, format!("{}", n)),
                None => n.clone(),
            },
            Expr::Call(n, args) => {
                let parts: Vec<String> = args.iter().map(|a| self.describe(a)).collect();
                match self.d(DKind::Function, n) {
                    Some(id) => self.mark(id, format!("{}|{}", n, parts.join("|"))),
                    None => format!("{}({})", n, parts.join(",")),
                }
            }
            Expr::Un(op, x) => {
                let r = self.describe(x);
                match self.d(DKind::Unary, op) {
                    Some(id) => self.mark(id, format!("{}|{}", op, r)),
                    None => format!("{}{}", op, r),
                }
            }
            Expr::Post(x, op) => {
                let l = self.describe(x);
                match self.d(DKind::Postfix, op) {
                    Some(id) => self.mark(id, format!("{}|{}", l, op)),
                    None => format!("{}{}", l, op),
                }
            }
            Expr::Bin(op, l, r) => {
                let (l, r) = (self.describe(l), self.describe(r));
                match self.d(DKind::Binary, op) {
                    Some(id) => self.mark(id, format!("{}|{}|{}", op, l, r)),
                    None => format!("{}{}{}", l, op, r),
                }
            }
            Expr::Tern(c, a, b) => {
                let (c, a, b) = (self.describe(c), self.describe(a), self.describe(b));
                match self.d(DKind::Ternary, "") {
                    Some(id) => self.mark(id, format!("{}|{}|{}", c, a, b)),
                    None => format!("{}?{}:{}", c, a, b),
                }
            }
            Expr::List(xs) => {
                let parts: Vec<String> = xs.iter().map(|a| self.describe(a)).collect();
                match self.d(DKind::List, "") {
                    Some(id) => self.mark(id, format!("{}", parts.join("|"))),
                    None => format!("[{}]", parts.join(",")),
                }
            }
            Expr::Map(xs) => {
                let parts: Vec<(String, String)> = xs.iter().map(|(k, v)| (self.describe(k), self.describe(v))).collect();
                match self.d(DKind::Map, "") {
                    Some(id) => {
                        self.mark(id, format!("{}", parts.iter().map(|(k, v)| format!("{}=>{}", k, v)).collect::<Vec<_>>().join("|")))
                    }
                    None => format!("{{{}}}", parts.iter().map(|(k, v)| format!("{}:{}", k, v)).collect::<Vec<_>>().join(",")),
                }
            }
        }
    }
}
