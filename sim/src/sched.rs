//! The seeded scheduler that decides every interleaving.  One `SchedSpec` is one
//! exactly repeatable execution; the decisions it took are recorded and can be
//! fed back verbatim (`Replay`).

use crate::prng::Prng;
use serde::{Deserialize, Serialize};
use shuttle::scheduler::{Schedule, Scheduler, Task, TaskId};
use std::sync::{Arc, Mutex};

#[derive(Clone, PartialEq, Eq, Debug, Serialize, Deserialize)]
pub enum SchedSpec {
    /// run-to-completion: stay on the current task while it is runnable, else lowest id
    Lowest,
    Random { seed: u64 },
    /// stay on the current task with probability stay/100, else uniform
    Sticky { seed: u64, stay: u8 },
    /// PCT: random priorities, `depth-1` priority-change points drawn in
    /// [lo, hi) of the decision-step axis (steps with more than one runnable task)
    Pct { seed: u64, depth: u8, lo: u32, hi: u32 },
    /// explicit schedule: the task chosen at every decision with >1 runnable task.
    /// When the list is exhausted or names a task that is not runnable, fall back
    /// to `Lowest` (and count a divergence).
    Replay { choices: Vec<u16> },
}

#[derive(Clone, Default, Debug)]
pub struct SchedRecord {
    /// chosen task at every decision with more than one runnable task
    pub choices: Vec<u16>,
    /// all calls to next_task
    pub steps: u32,
    /// decisions with more than one runnable task
    pub decisions: u32,
    /// chosen != previously running task
    pub switches: u32,
    /// chosen != previously running task although that task was still runnable
    pub preemptions: u32,
    pub divergences: u32,
    pub max_tasks: u32,
}

pub struct SimScheduler {
    spec: SchedSpec,
    rng: Prng,
    rec: Arc<Mutex<SchedRecord>>,
    started: bool,
    // PCT state
    prio: Vec<Option<u64>>,
    low_next: u64,
    change_points: Vec<u32>,
    replay_pos: usize,
}

impl SimScheduler {
    pub fn new(spec: SchedSpec, rec: Arc<Mutex<SchedRecord>>) -> SimScheduler {
        let seed = match &spec {
            SchedSpec::Random { seed } | SchedSpec::Sticky { seed, .. } | SchedSpec::Pct { seed, .. } => *seed,
            _ => 0,
        };
        let mut rng = Prng::derive(seed, "sched", 0);
        let mut change_points = vec![];
        if let SchedSpec::Pct { depth, lo, hi, .. } = &spec {
            let (lo, hi) = (*lo, (*hi).max(*lo + 1));
            for _ in 1..*depth {
                change_points.push(lo + rng.below((hi - lo) as u64) as u32);
            }
        }
        SimScheduler {
            spec,
            rng,
            rec,
            started: false,
            prio: vec![],
            low_next: 1 << 20,
            change_points,
            replay_pos: 0,
        }
    }

    fn lowest(runnable: &[&Task], current: Option<TaskId>) -> TaskId {
        if let Some(c) = current {
            if runnable.iter().any(|t| t.id() == c) {
                return c;
            }
        }
        runnable.iter().map(|t| t.id()).min_by_key(|t| usize::from(*t)).unwrap()
    }
}

impl Scheduler for SimScheduler {
    fn new_execution(&mut self) -> Option<Schedule> {
        if self.started {
            return None;
        }
        self.started = true;
        Some(Schedule::new(0))
    }

    fn next_task(&mut self, runnable: &[&Task], current: Option<TaskId>, is_yielding: bool) -> Option<TaskId> {
        let n = runnable.len();
        let cur_runnable = current.map(|c| runnable.iter().any(|t| t.id() == c)).unwrap_or(false);
        let mut divergence = false;
        let decision_index = self.rec.lock().unwrap().decisions;
        let chosen = if n == 1 {
            runnable[0].id()
        } else {
            match &self.spec {
                SchedSpec::Lowest => Self::lowest(runnable, current),
                SchedSpec::Random { .. } => runnable[self.rng.usize(n)].id(),
                SchedSpec::Sticky { stay, .. } => {
                    if cur_runnable && !is_yielding && self.rng.below(100) < *stay as u64 {
                        current.unwrap()
                    } else {
                        runnable[self.rng.usize(n)].id()
                    }
                }
                SchedSpec::Pct { .. } => {
                    for t in runnable {
                        let id = usize::from(t.id());
                        if self.prio.len() <= id {
                            self.prio.resize(id + 1, None);
                        }
                        if self.prio[id].is_none() {
                            // high band, distinct with overwhelming probability; ties broken by id
                            self.prio[id] = Some((1 << 40) + (self.rng.next() >> 24));
                        }
                    }
                    if self.change_points.contains(&decision_index) || is_yielding {
                        if let Some(c) = current {
                            let id = usize::from(c);
                            if id < self.prio.len() {
                                self.low_next -= 1;
                                self.prio[id] = Some(self.low_next);
                            }
                        }
                    }
                    runnable
                        .iter()
                        .map(|t| t.id())
                        .max_by_key(|t| (self.prio[usize::from(*t)].unwrap(), usize::MAX - usize::from(*t)))
                        .unwrap()
                }
                SchedSpec::Replay { choices } => {
                    let want = choices.get(self.replay_pos).copied();
                    self.replay_pos += 1;
                    match want.and_then(|w| runnable.iter().map(|t| t.id()).find(|t| usize::from(*t) == w as usize)) {
                        Some(t) => t,
                        None => {
                            divergence = true;
                            Self::lowest(runnable, current)
                        }
                    }
                }
            }
        };
        let mut rec = self.rec.lock().unwrap();
        rec.steps += 1;
        rec.max_tasks = rec.max_tasks.max(usize::from(runnable.iter().map(|t| t.id()).max().unwrap()) as u32 + 1);
        if n > 1 {
            rec.decisions += 1;
            rec.choices.push(usize::from(chosen) as u16);
            if divergence {
                rec.divergences += 1;
            }
        }
        if let Some(c) = current {
            if c != chosen {
                rec.switches += 1;
                if cur_runnable {
                    rec.preemptions += 1;
                }
            }
        }
        Some(chosen)
    }

    fn next_u64(&mut self) -> u64 {
        self.rng.next()
    }
}
