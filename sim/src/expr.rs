//! The harness's own value and program representation.  Programs are generated
//! as trees and rendered fully parenthesised, so the text the engine sees never
//! depends on precedence rules (C02) or on the parser's leniencies (C05).

use expression_engine::Value;
use rust_decimal::Decimal;
use serde::{Deserialize, Serialize};
use std::str::FromStr;

#[derive(Clone, PartialEq, Eq, Hash, Debug, Serialize, Deserialize, PartialOrd, Ord)]
pub enum Val {
    None,
    Bool(bool),
    /// exact decimal text as the engine prints it (scale preserved)
    Num(String),
    Str(String),
    List(Vec<Val>),
    Map(Vec<(Val, Val)>),
}

impl Val {
    pub fn int(n: i64) -> Val {
        Val::Num(n.to_string())
    }
    pub fn s(s: &str) -> Val {
        Val::Str(s.to_string())
    }
    pub fn to_engine(&self) -> Value {
        match self {
            Val::None => Value::None,
            Val::Bool(b) => Value::Bool(*b),
            Val::Num(s) => Value::Number(Decimal::from_str(s).expect("canonical decimal")),
            Val::Str(s) => Value::String(s.clone()),
            Val::List(xs) => Value::List(xs.iter().map(|x| x.to_engine()).collect()),
            Val::Map(xs) => Value::Map(xs.iter().map(|(k, v)| (k.to_engine(), v.to_engine())).collect()),
        }
    }
    pub fn from_engine(v: &Value) -> Val {
        match v {
            Value::None => Val::None,
            Value::Bool(b) => Val::Bool(*b),
            // exact text, scale included: `3.0` and `3` behave differently (integer(), shifts), so the model carries the scale too
            Value::Number(d) => {
                // (the sign of a zero is not observable through the language; `-0` and `0` are one value)
                let s = d.to_string();
                Val::Num(if d.is_zero() { s.trim_start_matches('-').to_string() } else { s })
            }
            Value::String(s) => Val::Str(s.clone()),
            Value::List(xs) => Val::List(xs.iter().map(Val::from_engine).collect()),
            Value::Map(xs) => Val::Map(xs.iter().map(|(k, v)| (Val::from_engine(k), Val::from_engine(v))).collect()),
        }
    }
    pub fn show(&self) -> String {
        match self {
            Val::None => "None".into(),
            Val::Bool(b) => b.to_string(),
            Val::Num(s) => s.clone(),
            Val::Str(s) => format!("{:?}", s),
            Val::List(xs) => format!("[{}]", xs.iter().map(|x| x.show()).collect::<Vec<_>>().join(",")),
            Val::Map(xs) => format!(
                "{{{}}}",
                xs.iter().map(|(k, v)| format!("{}:{}", k.show(), v.show())).collect::<Vec<_>>().join(",")
            ),
        }
    }
}

#[derive(Clone, PartialEq, Eq, Hash, Debug, Serialize, Deserialize)]
pub enum Expr {
    /// Bool, non-negative Num or Str (without quote characters)
    Lit(Val),
    Ref(String),
    Call(String, Vec<Expr>),
    Un(String, Box<Expr>),
    Bin(String, Box<Expr>, Box<Expr>),
    Post(Box<Expr>, String),
    Tern(Box<Expr>, Box<Expr>, Box<Expr>),
    List(Vec<Expr>),
    Map(Vec<(Expr, Expr)>),
}

pub fn lit_i(n: i64) -> Expr {
    Expr::Lit(Val::int(n))
}
pub fn lit_b(b: bool) -> Expr {
    Expr::Lit(Val::Bool(b))
}
pub fn lit_s(s: &str) -> Expr {
    Expr::Lit(Val::s(s))
}
pub fn rf(n: &str) -> Expr {
    Expr::Ref(n.to_string())
}
pub fn call(n: &str, a: Vec<Expr>) -> Expr {
    Expr::Call(n.to_string(), a)
}
pub fn bin(op: &str, l: Expr, r: Expr) -> Expr {
    Expr::Bin(op.to_string(), Box::new(l), Box::new(r))
}
pub fn un(op: &str, e: Expr) -> Expr {
    Expr::Un(op.to_string(), Box::new(e))
}
pub fn post(e: Expr, op: &str) -> Expr {
    Expr::Post(Box::new(e), op.to_string())
}
pub fn tern(c: Expr, a: Expr, b: Expr) -> Expr {
    Expr::Tern(Box::new(c), Box::new(a), Box::new(b))
}

impl Expr {
    fn atomic(&self) -> bool {
        matches!(self, Expr::Lit(_) | Expr::Ref(_) | Expr::Call(..) | Expr::List(_) | Expr::Map(_))
    }
    /// rendering used for operands: composite nodes are wrapped in parentheses
    pub fn operand(&self) -> String {
        if self.atomic() {
            self.render()
        } else {
            format!("({})", self.render())
        }
    }
    pub fn render(&self) -> String {
        match self {
            Expr::Lit(Val::Bool(b)) => b.to_string(),
            Expr::Lit(Val::Num(s)) => s.clone(),
            Expr::Lit(Val::Str(s)) => format!("'{}'", s),
            Expr::Lit(v) => panic!("not a literal: {:?}", v),
            Expr::Ref(n) => n.clone(),
            Expr::Call(n, args) => {
                // some call sites are written with whitespace between the name and the parenthesis
                // (decided by the name and arity, so that rendering stays a pure function of the tree)
                let argtxt = args.iter().map(|a| a.operand()).collect::<Vec<_>>().join(", ");
                let gap = if (crate::prng::h64(n.as_bytes()) ^ crate::prng::h64(argtxt.as_bytes())).wrapping_add(args.len() as u64) % 5 == 0 { " " } else { "" };
                format!("{}{}({})", n, gap, argtxt)
            }
            Expr::Un(op, e) => format!("{} {}", op, e.operand()),
            Expr::Bin(op, l, r) => format!("{} {} {}", l.operand(), op, r.operand()),
            Expr::Post(e, op) => format!("{} {}", e.operand(), op),
            Expr::Tern(c, a, b) => format!("{} ? {} : {}", c.operand(), a.operand(), b.operand()),
            Expr::List(xs) => format!("[{}]", xs.iter().map(|a| a.operand()).collect::<Vec<_>>().join(", ")),
            Expr::Map(xs) => format!(
                "{{{}}}",
                xs.iter().map(|(k, v)| format!("{} : {}", k.operand(), v.operand())).collect::<Vec<_>>().join(", ")
            ),
        }
    }
    /// what `format!("{:?}", ExprAST)` prints for the tree this Expr denotes
    pub fn ast_debug(&self) -> String {
        match self {
            Expr::Lit(Val::Bool(b)) => format!("Literal(Bool({}))", b),
            Expr::Lit(Val::Num(s)) => format!("Literal(Number({}))", s),
            Expr::Lit(Val::Str(s)) => format!("Literal(String({:?}))", s),
            Expr::Lit(v) => panic!("not a literal: {:?}", v),
            Expr::Ref(n) => format!("Reference({:?})", n),
            Expr::Call(n, args) => format!("Function({:?}, [{}])", n, join_dbg(args)),
            Expr::Un(op, e) => format!("Unary({:?}, {})", op, e.ast_debug()),
            Expr::Bin(op, l, r) => format!("Binary({:?}, {}, {})", op, l.ast_debug(), r.ast_debug()),
            Expr::Post(e, op) => format!("Postfix({}, {:?})", e.ast_debug(), op),
            Expr::Tern(c, a, b) => format!("Ternary({}, {}, {})", c.ast_debug(), a.ast_debug(), b.ast_debug()),
            Expr::List(xs) => format!("List([{}])", join_dbg(xs)),
            Expr::Map(xs) => format!(
                "Map([{}])",
                xs.iter().map(|(k, v)| format!("({}, {})", k.ast_debug(), v.ast_debug())).collect::<Vec<_>>().join(", ")
            ),
        }
    }
    pub fn size(&self) -> usize {
        1 + match self {
            Expr::Lit(_) | Expr::Ref(_) => 0,
            Expr::Call(_, a) | Expr::List(a) => a.iter().map(|x| x.size()).sum(),
            Expr::Un(_, e) | Expr::Post(e, _) => e.size(),
            Expr::Bin(_, l, r) => l.size() + r.size(),
            Expr::Tern(c, a, b) => c.size() + a.size() + b.size(),
            Expr::Map(xs) => xs.iter().map(|(k, v)| k.size() + v.size()).sum(),
        }
    }
    /// a copy with every string literal rewritten by `f`
    pub fn map_strings(&self, f: &dyn Fn(&str) -> String) -> Expr {
        let m = |x: &Expr| x.map_strings(f);
        match self {
            Expr::Lit(Val::Str(s)) => Expr::Lit(Val::Str(f(s))),
            Expr::Lit(_) | Expr::Ref(_) => self.clone(),
            Expr::Call(n, a) => Expr::Call(n.clone(), a.iter().map(m).collect()),
            Expr::List(a) => Expr::List(a.iter().map(m).collect()),
            Expr::Un(op, x) => Expr::Un(op.clone(), Box::new(m(x))),
            Expr::Post(x, op) => Expr::Post(Box::new(m(x)), op.clone()),
            Expr::Bin(op, l, r) => Expr::Bin(op.clone(), Box::new(m(l)), Box::new(m(r))),
            Expr::Tern(c, a, b) => Expr::Tern(Box::new(m(c)), Box::new(m(a)), Box::new(m(b))),
            Expr::Map(xs) => Expr::Map(xs.iter().map(|(k, v)| (m(k), m(v))).collect()),
        }
    }
    /// direct children, left to right
    pub fn children(&self) -> Vec<&Expr> {
        match self {
            Expr::Lit(_) | Expr::Ref(_) => vec![],
            Expr::Call(_, a) | Expr::List(a) => a.iter().collect(),
            Expr::Un(_, e) | Expr::Post(e, _) => vec![e],
            Expr::Bin(_, l, r) => vec![l, r],
            Expr::Tern(c, a, b) => vec![c, a, b],
            Expr::Map(xs) => xs.iter().flat_map(|(k, v)| vec![k, v]).collect(),
        }
    }
}

fn join_dbg(xs: &[Expr]) -> String {
    xs.iter().map(|a| a.ast_debug()).collect::<Vec<_>>().join(", ")
}

/// A program: what is handed to `parse_expression` / `execute`.
#[derive(Clone, PartialEq, Eq, Hash, Debug, Serialize, Deserialize)]
pub enum Prog {
    /// statements, each a tree rendered fully parenthesised, joined by ";"
    Stmts(Vec<Expr>),
    /// `a0 o1 a1 o2 a2 ...` rendered *without* parentheses around the chain:
    /// the grouping is decided by the registered precedences (C08, C13-T4)
    Chain(Vec<Expr>, Vec<String>),
}

impl Prog {
    pub fn one(e: Expr) -> Prog {
        Prog::Stmts(vec![e])
    }
    pub fn text(&self) -> String {
        match self {
            Prog::Stmts(xs) => {
                let mut s = xs.iter().map(|e| e.render()).collect::<Vec<_>>().join(" ; ");
                // a sixth of the programs (by content) are written with a trailing semicolon: it separates
                // nothing, the program's value is still the value of its last statement
                if !xs.is_empty() && crate::prng::h64(s.as_bytes()) % 6 == 0 {
                    s.push_str(" ;");
                }
                s
            }
            Prog::Chain(operands, ops) => {
                // an operand that is a prefix operator applied to a literal or a name is written WITHOUT
                // parentheses (`- 2 op 3`): a prefix operator binds tighter than every infix operator
                fn chain_operand(e: &Expr) -> String {
                    match e {
                        Expr::Un(op, inner) if matches!(**inner, Expr::Lit(_) | Expr::Ref(_)) => format!("{} {}", op, inner.render()),
                        _ => e.operand(),
                    }
                }
                let mut s = chain_operand(&operands[0]);
                for (i, op) in ops.iter().enumerate() {
                    s.push(' ');
                    s.push_str(op);
                    s.push(' ');
                    s.push_str(&chain_operand(&operands[i + 1]));
                }
                s
            }
        }
    }
    pub fn size(&self) -> usize {
        match self {
            Prog::Stmts(xs) => xs.iter().map(|e| e.size()).sum(),
            Prog::Chain(a, _) => a.iter().map(|e| e.size()).sum::<usize>() + a.len(),
        }
    }
}

/// `format!("{:?}")` of the AST `parse_expression` must return for statements
pub fn stmts_ast_debug(xs: &[Expr]) -> String {
    if xs.len() == 1 {
        xs[0].ast_debug()
    } else {
        format!("Stmt([{}])", join_dbg(xs))
    }
}
