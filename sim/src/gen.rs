//! Seeded generator of typed programs (as trees) with *observable* nodes:
//! calls to logging context functions and global functions, bare-name reads of
//! context functions, and harness-registered prefix / infix / postfix operators.
//! Operands stay inside the domain where the built-ins do not hit the numeric
//! edges of C04 (small integers, literal non-zero divisors, shift counts 0..=20).

use crate::case::*;
use crate::expr::*;
use crate::prng::Prng;

#[derive(Clone, Copy, PartialEq, Eq, Debug)]
pub enum Ty {
    Int,
    Num,
    Bool,
    Str,
    ListInt,
    ListBool,
    Map,
    None,
}

#[derive(Clone, Debug)]
pub struct Knobs {
    /// out of 100: how often an inner node / leaf is made observable
    pub observable: u64,
    pub max_depth: u32,
    pub max_nodes: usize,
    pub ctx_call: bool,
    pub ctx_bare: bool,
    pub global_fn: bool,
    pub ops: bool,
    pub assignments: bool,
    /// context functions that dump the evaluating context (through its handle) when *called*
    pub dumpers: bool,
}

pub struct Gen<'a> {
    pub r: &'a mut Prng,
    pub case: &'a mut Case,
    pub knobs: Knobs,
    /// slot the program will be evaluated in
    pub slot: usize,
    /// variables visible at this point of the program, with their current static type
    pub vars: Vec<(String, Ty)>,
    /// registrations the program depends on (to be placed before the evaluation)
    pub regs: Vec<Op>,
    pub nodes: usize,
    /// names that nested assignments (assignments used as expressions) may target
    pub assign_names: Vec<String>,
    /// observable names created so far: (kind, name, type of the value the handler returns)
    pub pool: Vec<(&'static str, String, Ty)>,
    counter: usize,
    /// reach: which observable kinds were generated
    pub kinds_used: Vec<&'static str>,
}

const STRS: &[&str] = &["ab", "abc", "b", "", "xyz", "a", "a b", "John Smith", "a;b", "{1} of {2}", "f(1) + [2]", "naïve café — ünïcödé strïng wïth möre thän förty-eïght bytes"];
/// canonical (normalised) fractional decimals
const FRACS: &[&str] = &["0.5", "1.5", "2.25", "5.5", "0.1", "7.75", "3.2"];

pub fn const_of(r: &mut Prng, ty: Ty) -> Val {
    match ty {
        Ty::Int => Val::int(r.range(0, 12)),
        Ty::Num => {
            if r.chance(1, 2) {
                Val::Num((*r.pick(FRACS)).to_string())
            } else {
                Val::int(r.range(0, 12))
            }
        }
        Ty::Bool => Val::Bool(r.chance(1, 2)),
        Ty::Str => Val::s(*r.pick(STRS)),
        Ty::ListInt => Val::List((0..r.usize(4)).map(|_| Val::int(r.range(0, 5))).collect()),
        Ty::ListBool => Val::List((0..r.usize(3)).map(|_| Val::Bool(r.chance(1, 2))).collect()),
        Ty::Map => Val::Map(vec![(Val::s("k"), Val::int(r.range(0, 9)))]),
        Ty::None => Val::None,
    }
}

impl<'a> Gen<'a> {
    pub fn new(r: &'a mut Prng, case: &'a mut Case, knobs: Knobs, slot: usize) -> Gen<'a> {
        let vars = case.slots[slot]
            .vars
            .iter()
            .map(|(k, v)| {
                (
                    k.clone(),
                    match v {
                        Val::Num(s) if s.contains('.') => Ty::Num,
                        Val::Num(_) => Ty::Int,
                        Val::Bool(_) => Ty::Bool,
                        Val::Str(_) => Ty::Str,
                        Val::List(xs) if xs.iter().all(|x| matches!(x, Val::Num(_))) => Ty::ListInt,
                        Val::List(_) => Ty::ListBool,
                        Val::Map(_) => Ty::Map,
                        Val::None => Ty::None,
                    },
                )
            })
            .collect();
        Gen { r, case, knobs, slot, vars, regs: vec![], nodes: 0, assign_names: vec![], pool: vec![], counter: 0, kinds_used: vec![] }
    }

    fn fresh(&mut self, prefix: &str) -> String {
        self.counter += 1;
        format!("{}{}", prefix, self.counter)
    }

    fn handler(&mut self, kind: HKind, ty: Ty) -> usize {
        let v = const_of(self.r, ty);
        self.case.add_handler(HandlerSpec::plain(kind, Ret::Const(v)))
    }

    /// an observable node of type `ty` (returns None when no observable kind is enabled)
    fn observable(&mut self, ty: Ty, depth: u32) -> Option<Expr> {
        let mut kinds: Vec<&'static str> = vec![];
        if self.knobs.ctx_call {
            kinds.push("ctx_call");
        }
        if self.knobs.ctx_bare {
            kinds.push("ctx_bare");
        }
        if self.knobs.global_fn {
            kinds.push("global_fn");
        }
        if self.knobs.ops && depth > 0 {
            kinds.extend(["prefix_op", "infix_op", "postfix_op"]);
        }
        if kinds.is_empty() {
            return None;
        }
        let k = *self.r.pick(&kinds);
        self.kinds_used.push(k);
        self.nodes += 1;
        let slot = self.slot;
        // the SAME observable name at several positions (each visit must invoke it again)
        let reusable: Vec<String> = self.pool.iter().filter(|(pk, _, pt)| *pk == k && *pt == ty).map(|(_, n, _)| n.clone()).collect();
        if !reusable.is_empty() && self.r.chance(1, 3) {
            let name = reusable[self.r.usize(reusable.len())].clone();
            let d1 = depth.saturating_sub(1);
            return Some(match k {
                "ctx_call" | "global_fn" => {
                    let n = if depth > 0 { self.r.usize(3) } else { 0 };
                    let args = (0..n).map(|_| self.any(d1)).collect();
                    Expr::Call(name, args)
                }
                "ctx_bare" => Expr::Ref(name),
                "prefix_op" => {
                    let x = self.any(d1);
                    Expr::Un(name, Box::new(x))
                }
                "postfix_op" => {
                    let x = self.any(d1);
                    Expr::Post(Box::new(x), name)
                }
                _ => {
                    let a = self.any(d1);
                    let b = self.any(d1);
                    Expr::Bin(name, Box::new(a), Box::new(b))
                }
            });
        }
        let made = self.pool.len();
        let e = self.observable_new(k, ty, depth, slot);
        if let Some(name) = match &e {
            Expr::Call(n, _) | Expr::Ref(n) | Expr::Un(n, _) | Expr::Post(_, n) | Expr::Bin(n, _, _) => Some(n.clone()),
            _ => None,
        } {
            self.pool.insert(made.min(self.pool.len()), (k, name, ty));
        }
        Some(e)
    }

    fn observable_new(&mut self, k: &'static str, ty: Ty, depth: u32, slot: usize) -> Expr {
        match k {
            "ctx_call" => {
                let name = self.fresh("p");
                let h = self.handler(HKind::CtxFunc, ty);
                self.case.slots[slot].funcs.push((name.clone(), h));
                if self.knobs.global_fn && self.r.chance(1, 5) {
                    // a GLOBAL function of the same name: shadowed by the context function, never reached
                    let hg = self.case.add_handler(HandlerSpec::plain(HKind::Func, Ret::Marker));
                    self.regs.push(Op::RegFn { name: name.clone(), h: hg });
                }
                let n = if depth > 0 { self.r.usize(3) } else { 0 };
                let args = (0..n).map(|_| self.any(depth.saturating_sub(1))).collect();
                Expr::Call(name, args)
            }
            "ctx_bare" => {
                let name = self.fresh("b");
                let h = self.handler(HKind::CtxFunc, ty);
                self.case.slots[slot].funcs.push((name.clone(), h));
                Expr::Ref(name)
            }
            "global_fn" => {
                let name = self.fresh("g");
                let h = self.handler(HKind::Func, ty);
                self.regs.push(Op::RegFn { name: name.clone(), h });
                let n = if depth > 0 { self.r.usize(3) } else { 0 };
                let args = (0..n).map(|_| self.any(depth.saturating_sub(1))).collect();
                Expr::Call(name, args)
            }
            "prefix_op" => {
                let name = self.fresh("pre");
                let h = self.handler(HKind::Prefix, ty);
                self.regs.push(Op::RegPre { name: name.clone(), h });
                let x = self.any(depth - 1);
                Expr::Un(name, Box::new(x))
            }
            "postfix_op" => {
                let name = self.fresh("post");
                let h = self.handler(HKind::Postfix, ty);
                self.regs.push(Op::RegPost { name: name.clone(), h });
                let x = self.any(depth - 1);
                Expr::Post(Box::new(x), name)
            }
            _ => {
                let name = self.fresh("inf");
                let h = self.handler(HKind::Infix, ty);
                let prec = self.r.range(1, 300) as i32;
                let right = self.r.chance(1, 2);
                self.regs.push(Op::RegIn { name: name.clone(), prec, setter: false, right, h });
                let a = self.any(depth - 1);
                let b = self.any(depth - 1);
                Expr::Bin(name, Box::new(a), Box::new(b))
            }
        }
    }

    pub fn any(&mut self, depth: u32) -> Expr {
        if depth > 0 && self.r.chance(1, 40) {
            // an operator applied to operands of ANY type (mostly a type error; the model mirrors the
            // engine's verdict on the VALUES, so what matters is that nothing else changes: every
            // operand is still evaluated once, in order, before the operator fails or succeeds)
            let op = *self.r.pick(&["<", "<=", ">", ">=", "+", "-", "*", "&&", "||", "in", "beginWith", "|", "<<"]);
            let a = self.any(depth - 1);
            let b = self.any(depth - 1);
            return bin(op, a, b);
        }
        if depth > 0 && self.r.chance(1, 150) {
            // unusual sizes: a long list literal, or a value buried 20..40 levels deep
            let inner = self.any(depth - 1);
            return if self.r.chance(1, 2) {
                let n = 20 + self.r.usize(40);
                let at = self.r.usize(n);
                Expr::List((0..n).map(|i| if i == at { inner.clone() } else { lit_i((i % 7) as i64) }).collect())
            } else {
                let mut e = inner;
                for i in 0..(20 + self.r.usize(20)) {
                    e = if i % 3 == 0 { Expr::List(vec![e]) } else if i % 3 == 1 { tern(lit_b(true), e, lit_i(0)) } else { Expr::Map(vec![(lit_s("k"), e)]) };
                }
                e
            };
        }
        if depth > 0 && self.r.chance(1, 40) {
            // list literals directly inside a list literal, elements of any type on both sides of them
            let a = self.any(depth - 1);
            let b = self.any(depth - 1);
            let c = self.any(depth - 1);
            let d = self.any(depth - 1);
            return Expr::List(vec![a, Expr::List(vec![b, Expr::List(vec![c])]), d]);
        }
        if depth > 0 && self.knobs.observable > 0 && self.r.chance(1, 60) {
            // a call to a function that exists nowhere: its arguments are still evaluated, in order, first
            let n = 1 + self.r.usize(2);
            let args = (0..n).map(|_| self.any(depth - 1)).collect();
            return Expr::Call("nobody_at_all".into(), args);
        }
        if self.knobs.assignments && !self.assign_names.is_empty() && self.r.chance(1, 12) {
            // an assignment used as an expression: it binds and yields None
            let names: Vec<String> = self.assign_names.clone();
            let refs: Vec<&str> = names.iter().map(|s| s.as_str()).collect();
            return self.assignment(&refs, depth.min(1));
        }
        let ty = *self.r.pick(&[Ty::Int, Ty::Int, Ty::Int, Ty::Bool, Ty::Bool, Ty::Str, Ty::Str, Ty::ListInt, Ty::ListInt, Ty::Num, Ty::Num, Ty::Map, Ty::Map, Ty::None]);
        self.expr(ty, depth)
    }

    fn var_of(&mut self, ty: Ty) -> Option<Expr> {
        let c: Vec<&(String, Ty)> = self.vars.iter().filter(|(_, t)| *t == ty || (ty == Ty::Num && *t == Ty::Int)).collect();
        if c.is_empty() {
            None
        } else {
            Some(rf(&c[self.r.usize(c.len())].0))
        }
    }

    fn leaf(&mut self, ty: Ty) -> Expr {
        self.nodes += 1;
        if self.r.chance(1, 3) {
            if let Some(v) = self.var_of(ty) {
                return v;
            }
        }
        match ty {
            Ty::Int => lit_i(self.r.range(0, 12)),
            Ty::Num => {
                if self.r.chance(1, 2) {
                    Expr::Lit(Val::Num((*self.r.pick(FRACS)).to_string()))
                } else {
                    lit_i(self.r.range(0, 12))
                }
            }
            Ty::Bool => lit_b(self.r.chance(1, 2)),
            Ty::Str => lit_s(*self.r.pick(STRS)),
            Ty::ListInt => Expr::List((0..self.r.usize(3)).map(|_| lit_i(self.r.range(0, 5))).collect()),
            Ty::ListBool => Expr::List((0..self.r.usize(3)).map(|_| lit_b(self.r.chance(1, 2))).collect()),
            Ty::Map => Expr::Map(vec![(lit_s("k"), lit_i(self.r.range(0, 9)))]),
            Ty::None => rf(*self.r.pick(&["unbound_name", "sum", "mul", "_", "unbound_name"])),
        }
    }

    pub fn expr(&mut self, ty: Ty, depth: u32) -> Expr {
        if self.r.below(100) < self.knobs.observable && self.nodes < self.knobs.max_nodes {
            if let Some(e) = self.observable(ty, depth) {
                return e;
            }
        }
        if depth == 0 || self.nodes >= self.knobs.max_nodes || self.r.chance(1, 5) {
            return self.leaf(ty);
        }
        self.nodes += 1;
        let d = depth - 1;
        match ty {
            Ty::Int if self.r.chance(1, 40) => {
                // an integral value that carries a scale where an integer is expected: `(1.5 * 2) << 1`
                // is an error although `3 << 1` is not (natural error; the model mirrors the engine)
                let scaled = bin("*", Expr::Lit(Val::Num((*self.r.pick(&["1.5", "2.5", "0.5"])).to_string())), lit_i(2));
                match self.r.below(3) {
                    0 => bin(*self.r.pick(&["<<", ">>"]), scaled, lit_i(self.r.range(0, 4))),
                    1 => bin(*self.r.pick(&["&", "|", "^"]), scaled, self.expr(Ty::Int, d)),
                    _ => bin(*self.r.pick(&["&", "|"]), lit_i(self.r.range(0, 12)), Expr::Lit(Val::Num((*self.r.pick(&["3.0", "4.0", "12.0"])).to_string()))),
                }
            }
            Ty::Int => match self.r.below(12) {
                0 | 1 => bin(*self.r.pick(&["+", "-"]), self.expr(Ty::Int, d), self.expr(Ty::Int, d)),
                2 => bin("*", self.expr(Ty::Int, d), lit_i(self.r.range(0, 9))),
                3 => bin(*self.r.pick(&["&", "|", "^"]), self.expr(Ty::Int, d), self.expr(Ty::Int, d)),
                4 => bin(*self.r.pick(&["<<", ">>"]), self.expr(Ty::Int, d), lit_i(self.r.range(0, 20))),
                5 => un(*self.r.pick(&["-", "+"]), self.expr(Ty::Int, d)),
                6 => post(self.expr(Ty::Int, d), *self.r.pick(&["++", "--"])),
                7 | 8 => tern(self.expr(Ty::Bool, d), self.expr(Ty::Int, d), self.expr(Ty::Int, d)),
                9 => {
                    let n = 1 + self.r.usize(3);
                    call(*self.r.pick(&["min", "max", "sum"]), (0..n).map(|_| self.expr(Ty::Int, d)).collect())
                }
                10 => bin("%", self.expr(Ty::Int, d), lit_i(self.r.range(1, 9))),
                _ => self.leaf(Ty::Int),
            },
            Ty::Num => match self.r.below(6) {
                0 => bin("/", self.expr(Ty::Int, d), lit_i(*self.r.pick(&[1, 2, 4, 5, 8, 10]))),
                1 => bin(*self.r.pick(&["+", "-"]), self.expr(Ty::Num, d), self.expr(Ty::Num, d)),
                2 => bin("*", self.expr(Ty::Num, d), lit_i(self.r.range(0, 9))),
                3 => bin("%", self.expr(Ty::Num, d), lit_i(self.r.range(1, 9))),
                4 => self.leaf(Ty::Num),
                _ => self.expr(Ty::Int, depth),
            },
            Ty::Bool => match self.r.below(10) {
                0 | 1 => bin(*self.r.pick(&["<", "<=", ">", ">=", "==", "!="]), self.expr(Ty::Num, d), self.expr(Ty::Num, d)),
                2 => bin(*self.r.pick(&["&&", "||"]), self.expr(Ty::Bool, d), self.expr(Ty::Bool, d)),
                3 => un(*self.r.pick(&["!", "not"]), self.expr(Ty::Bool, d)),
                4 => {
                    if self.r.chance(1, 2) {
                        // the needle matches an element that is NOT the last one
                        let k = self.r.range(0, 5);
                        let mut xs = vec![];
                        for _ in 0..self.r.usize(2) {
                            xs.push(self.expr(Ty::Int, d));
                        }
                        xs.push(lit_i(k));
                        for _ in 0..(1 + self.r.usize(2)) {
                            xs.push(self.expr(Ty::Int, d));
                        }
                        bin("in", lit_i(k), Expr::List(xs))
                    } else {
                        bin("in", self.expr(Ty::Int, d), self.expr(Ty::ListInt, d))
                    }
                }
                5 => bin(*self.r.pick(&["beginWith", "endWith"]), self.expr(Ty::Str, d), self.expr(Ty::Str, d)),
                6 => un(*self.r.pick(&["AND", "OR"]), self.expr(Ty::ListBool, d)),
                7 => tern(self.expr(Ty::Bool, d), self.expr(Ty::Bool, d), self.expr(Ty::Bool, d)),
                8 => bin(*self.r.pick(&["==", "!="]), self.any(d), self.any(d)),
                _ => self.leaf(Ty::Bool),
            },
            Ty::Str => match self.r.below(3) {
                0 => tern(self.expr(Ty::Bool, d), self.expr(Ty::Str, d), self.expr(Ty::Str, d)),
                _ => self.leaf(Ty::Str),
            },
            Ty::ListInt => match self.r.below(4) {
                0 => tern(self.expr(Ty::Bool, d), self.expr(Ty::ListInt, d), self.expr(Ty::ListInt, d)),
                _ => Expr::List((0..self.r.usize(4)).map(|_| self.expr(Ty::Int, d)).collect()),
            },
            Ty::ListBool => Expr::List((0..self.r.usize(4)).map(|_| self.expr(Ty::Bool, d)).collect()),
            Ty::Map if self.r.chance(1, 4) => {
                // a repeated key (and other keys around it): every entry is still evaluated, in order
                let k = if self.r.chance(1, 2) { lit_s("k") } else { lit_i(1) };
                let mut xs = vec![(lit_s("a"), self.any(d)), (k.clone(), self.any(d)), (lit_i(7), self.any(d)), (k, self.any(d))];
                if self.r.chance(1, 2) {
                    xs.push((lit_s("z"), self.any(d)));
                }
                Expr::Map(xs)
            }
            Ty::Map => {
                let n = self.r.usize(3);
                Expr::Map(
                    (0..n)
                        .map(|_| {
                            let k = if self.r.chance(1, 2) { self.expr(Ty::Str, d) } else { self.expr(Ty::Int, d) };
                            let v = self.any(d);
                            (k, v)
                        })
                        .collect(),
                )
            }
            Ty::None => self.leaf(Ty::None),
        }
    }

    fn set_var(&mut self, name: &str, ty: Ty) {
        if let Some(v) = self.vars.iter_mut().find(|(n, _)| n == name) {
            v.1 = ty;
        } else {
            self.vars.push((name.to_string(), ty));
        }
    }

    /// plain assignment to a variable name (never to a name bound to a context function)
    pub fn assignment(&mut self, names: &[&str], depth: u32) -> Expr {
        let name = self.r.pick(names).to_string();
        let ty = *self.r.pick(&[Ty::Int, Ty::Int, Ty::Bool, Ty::Str, Ty::ListInt]);
        let e = self.expr(ty, depth);
        self.set_var(&name, ty);
        if self.knobs.ops && self.r.chance(1, 5) {
            // assignment through a user-registered SETTER operator (its handler returns the right operand)
            let existing: Vec<String> = self.pool.iter().filter(|(k, _, _)| *k == "setter_op").map(|(_, n, _)| n.clone()).collect();
            let op = if !existing.is_empty() && self.r.chance(1, 2) {
                existing[self.r.usize(existing.len())].clone()
            } else {
                let op = self.fresh("set");
                let h = self.case.add_handler(HandlerSpec::plain(HKind::Infix, Ret::Arg(1)));
                self.regs.push(Op::RegIn { name: op.clone(), prec: 20, setter: true, right: true, h });
                self.pool.push(("setter_op", op.clone(), Ty::None));
                self.kinds_used.push("setter_op");
                op
            };
            return bin(&op, rf(&name), e);
        }
        bin("=", rf(&name), e)
    }

    /// one statement of a C06-style program
    pub fn statement(&mut self, names: &[&str], depth: u32) -> Expr {
        let ints: Vec<String> = self.vars.iter().filter(|(n, t)| *t == Ty::Int && names.contains(&n.as_str())).map(|(n, _)| n.clone()).collect();
        let nums: Vec<String> = self.vars.iter().filter(|(n, t)| (*t == Ty::Num || *t == Ty::Int) && names.contains(&n.as_str())).map(|(n, _)| n.clone()).collect();
        if !nums.is_empty() && self.r.chance(1, 8) {
            // decimal compound forms on a (possibly fractional) number
            let name = nums[self.r.usize(nums.len())].clone();
            let op = *self.r.pick(&["+=", "-=", "*=", "/=", "%="]);
            let rhs = match op {
                "/=" => lit_i(*self.r.pick(&[1, 2, 4, 5])),
                "%=" => if self.r.chance(1, 2) { lit_i(self.r.range(1, 9)) } else { Expr::Lit(Val::Num((*self.r.pick(FRACS)).to_string())) },
                "*=" => self.leaf(Ty::Num),
                _ => self.expr(Ty::Num, depth.min(1)),
            };
            self.set_var(&name, Ty::Num);
            return bin(op, rf(&name), rhs);
        }
        if !nums.is_empty() && self.r.chance(1, 12) {
            // re-assignment of a numerically equal number with another scale (2 vs 2.0), then a use
            // that observes the scale
            let name = nums[self.r.usize(nums.len())].clone();
            let k = self.r.range(1, 9);
            self.set_var(&name, Ty::Num);
            return match self.r.below(3) {
                0 => bin("=", rf(&name), Expr::List(vec![bin("=", rf(&name), lit_i(k)), bin("=", rf(&name), Expr::Lit(Val::Num(format!("{}.0", k)))), bin("|", rf(&name), lit_i(1))])),
                1 => bin("=", rf(&name), Expr::List(vec![bin("=", rf(&name), Expr::Lit(Val::Num(format!("{}.0", k)))), bin("=", rf(&name), lit_i(k)), bin("<<", rf(&name), lit_i(1))])),
                _ => bin("*=", rf(&name), Expr::Lit(Val::Num("1.0".into()))),
            };
        }
        if self.knobs.ctx_bare && self.r.chance(1, 12) {
            // compound assignment whose target is a context function: `f op= e` must bind f to f() op e
            let name = self.fresh("b");
            let v = self.r.range(0, 12);
            let h = self.case.add_handler(HandlerSpec::plain(HKind::CtxFunc, Ret::Const(Val::int(v))));
            let slot = self.slot;
            self.case.slots[slot].funcs.push((name.clone(), h));
            self.kinds_used.push("ctx_bare");
            let rhs = lit_i(self.r.range(1, 9));
            self.set_var(&name, Ty::Int);
            return bin(*self.r.pick(&["+=", "-=", "*=", "|="]), rf(&name), rhs);
        }
        if !ints.is_empty() && self.r.chance(1, 10) {
            // the right side of a compound assignment rebinds its own target first
            let name = ints[self.r.usize(ints.len())].clone();
            let inner = bin("=", rf(&name), lit_i(self.r.range(10, 40)));
            let a = lit_i(self.r.range(1, 9));
            let b = lit_i(self.r.range(1, 9));
            let rhs = tern(bin("==", inner, rf("unbound_name")), a, b);
            return bin(*self.r.pick(&["+=", "-=", "*="]), rf(&name), rhs);
        }
        match self.r.below(10) {
            0..=2 => self.assignment(names, depth),
            3..=5 if !ints.is_empty() => {
                // compound assignment on a variable that currently holds an integer
                let name = ints[self.r.usize(ints.len())].clone();
                let (op, rhs) = match self.r.below(11) {
                    0 => ("+=", self.expr(Ty::Int, depth)),
                    1 => ("-=", self.expr(Ty::Int, depth)),
                    2 => ("*=", lit_i(self.r.range(0, 9))),
                    3 => ("/=", lit_i(*self.r.pick(&[1, 2, 4, 5]))),
                    4 => ("%=", lit_i(self.r.range(1, 9))),
                    5 => ("<<=", lit_i(self.r.range(0, 8))),
                    6 => (">>=", lit_i(self.r.range(0, 8))),
                    7 => ("&=", self.expr(Ty::Int, depth.min(1))),
                    8 => ("^=", self.expr(Ty::Int, depth.min(1))),
                    9 => ("|=", self.expr(Ty::Int, depth.min(1))),
                    _ => ("+=", lit_i(1)),
                };
                if op == "/=" {
                    self.set_var(&name, Ty::Num);
                }
                bin(op, rf(&name), rhs)
            }
            6 => {
                // nested / chained assignment: the inner one yields None
                let a = self.r.pick(names).to_string();
                let inner = self.assignment(names, depth.min(1));
                if self.r.chance(1, 2) {
                    self.set_var(&a, Ty::None);
                    bin("=", rf(&a), inner)
                } else {
                    // the inner assignment is evaluated for its effect inside a list
                    Expr::List(vec![inner, lit_i(1)])
                }
            }
            7 => {
                // read: a variable, or a name that was never bound (also names under which a global function exists)
                if self.r.chance(1, 4) {
                    rf(*self.r.pick(&["sum", "mul", "never_bound", "_"]))
                } else {
                    let n = self.r.pick(names).to_string();
                    rf(&n)
                }
            }
            _ => self.any(depth),
        }
    }
}

pub fn base_ctx(r: &mut Prng, names: &[&str]) -> CtxSpec {
    let mut vars = vec![];
    for n in names {
        if r.chance(1, 12) {
            // unusual but legal bindings: an explicit None, a negative number, a nested list
            let v = match r.below(3) {
                0 => Val::None,
                1 => Val::int(-r.range(1, 9)),
                _ => Val::List(vec![Val::List(vec![Val::int(1)]), Val::s("a b"), Val::None]),
            };
            vars.push((n.to_string(), v));
            continue;
        }
        if r.chance(1, 2) {
            let ty = *r.pick(&[Ty::Int, Ty::Int, Ty::Bool, Ty::Str, Ty::ListInt, Ty::Num]);
            vars.push((n.to_string(), const_of(r, ty)));
        }
    }
    CtxSpec { vars, funcs: vec![] }
}
