//! Framework shared by all property checks: the per-worker runtime that runs
//! simulations and measures reach, the violation record, and the `Prop` trait.

use crate::case::*;
use crate::model::ModelOut;
use crate::sched::SchedSpec;
use crate::simrt::{run_case, RunOutput, Verdict};
use serde::{Deserialize, Serialize};
use std::collections::{BTreeMap, BTreeSet};
use std::sync::Arc;

#[derive(Clone, Copy, PartialEq, Eq, Debug)]
pub enum Tier {
    Quick,
    Thorough,
}

impl Tier {
    pub fn name(self) -> &'static str {
        match self {
            Tier::Quick => "quick",
            Tier::Thorough => "thorough",
        }
    }
    /// scale factor applied to the quick budgets (override with VERIF_SCALE)
    pub fn scale(self) -> u64 {
        if let Ok(s) = std::env::var("VERIF_SCALE") {
            if let Ok(n) = s.parse::<u64>() {
                return n.max(1);
            }
        }
        match self {
            Tier::Quick => 1,
            Tier::Thorough => 20,
        }
    }
}

#[derive(Clone, Debug, Serialize, Deserialize)]
pub struct Violation {
    pub property: String,
    pub class: String,
    pub detail: String,
    pub seed: u64,
    pub idx: u64,
    pub case: Case,
    pub sched: SchedSpec,
}

#[derive(Clone, Default, Debug, Serialize, Deserialize)]
pub struct Stats {
    pub indices: u64,
    /// simulated executions of the real engine
    pub runs: u64,
    pub model_runs: u64,
    pub oracle_runs: u64,
    pub steps: u64,
    pub decisions: u64,
    pub switches: u64,
    pub preemptions: u64,
    pub fired: BTreeMap<String, u64>,
    pub probes: BTreeMap<String, u64>,
    pub skipped: BTreeMap<String, u64>,
    pub samples: Vec<serde_json::Value>,
    pub determinism_rechecks: u64,
    pub nondeterminism: Vec<String>,
    pub harness_errors: Vec<String>,
    /// (index, signal): a forked child (isolated mode) was killed by a fatal signal raised by the code under test
    #[serde(default)]
    pub crashes: Vec<(u64, i32)>,
    #[serde(skip)]
    pub interleavings: BTreeSet<u64>,
    #[serde(skip)]
    pub histories: BTreeSet<u64>,
    #[serde(skip)]
    pub nontrivial: BTreeSet<u64>,
    #[serde(skip)]
    pub cases: BTreeSet<u64>,
}

pub struct Rt {
    pub stats: Stats,
    pub max_samples: usize,
    /// order-sensitive digest of every (schedule, history) observed since it was last reset
    pub digest: u64,
    /// fidelity sampling: (case, recorded history) of deterministic runs (at most one thread besides main at a time)
    pub fidelity_sink: Option<Vec<(Arc<Case>, Vec<Ev>)>>,
}

impl Rt {
    pub fn new() -> Rt {
        Rt { stats: Stats::default(), max_samples: 6, digest: 0, fidelity_sink: None }
    }

    /// one simulated execution of the real engine
    pub fn sim(&mut self, case: &Arc<Case>, spec: &SchedSpec) -> RunOutput {
        let out = run_case(case, spec);
        let s = &mut self.stats;
        s.runs += 1;
        s.steps += out.rec.steps as u64;
        s.decisions += out.rec.decisions as u64;
        s.switches += out.rec.switches as u64;
        s.preemptions += out.rec.preemptions as u64;
        if out.rec.decisions > 0 {
            s.interleavings.insert(out.schedule_hash() ^ case.fingerprint());
        }
        let hh = out.history_hash();
        s.histories.insert(hh);
        self.digest = self.digest.rotate_left(5) ^ hh ^ out.schedule_hash().rotate_left(32);
        if let Some(sink) = &mut self.fidelity_sink {
            if case.threads.len() <= 1 && out.verdict == Verdict::Completed && sink.len() < 4000 {
                sink.push((case.clone(), out.log.clone()));
            }
        }
        if let Verdict::Crash(m) = &out.verdict {
            if !m.starts_with("deadlock!") {
                s.harness_errors.push(format!("panic escaped a simulated task: {}", m));
            }
        }
        out
    }

    /// sequential-engine oracle run (not counted as an evaluation of the property)
    pub fn oracle_sim(&mut self, case: &Arc<Case>) -> RunOutput {
        self.stats.oracle_runs += 1;
        run_case(case, &SchedSpec::Lowest)
    }

    pub fn model(&mut self, case: &Arc<Case>) -> ModelOut {
        self.stats.model_runs += 1;
        crate::oracle::model_run(case)
    }

    pub fn fired(&mut self, kind: &str, n: u64) {
        if n > 0 {
            *self.stats.fired.entry(kind.to_string()).or_insert(0) += n;
        }
    }
    pub fn probe(&mut self, name: &str) {
        *self.stats.probes.entry(name.to_string()).or_insert(0) += 1;
    }
    pub fn declare_probe(&mut self, name: &str) {
        self.stats.probes.entry(name.to_string()).or_insert(0);
    }
    pub fn skip(&mut self, why: &str) {
        *self.stats.skipped.entry(why.to_string()).or_insert(0) += 1;
    }
    pub fn sample(&mut self, v: serde_json::Value) {
        if self.stats.samples.len() < self.max_samples {
            self.stats.samples.push(v);
        }
    }
    pub fn nontrivial(&mut self, h: u64) {
        self.stats.nontrivial.insert(h);
    }
    pub fn case_seen(&mut self, h: u64) {
        self.stats.cases.insert(h);
    }
}

pub struct PropMeta {
    pub id: &'static str,
    pub level: &'static str,
    pub rule: &'static str,
    pub assumptions: &'static [&'static str],
    pub fault_kinds: &'static [&'static str],
    pub probes: &'static [&'static str],
}

pub trait Prop: Sync {
    fn meta(&self) -> PropMeta;
    /// number of case indices explored at this tier
    fn n_indices(&self, tier: Tier) -> u64;
    /// everything explored for one index; a pure function of (seed, idx, tier)
    fn run_index(&self, idx: u64, seed: u64, tier: Tier, rt: &mut Rt) -> Vec<Violation>;
    /// judge one explicit (case, schedule) pair: replay and minimisation
    fn judge_one(&self, case: &Arc<Case>, spec: &SchedSpec, rt: &mut Rt) -> Option<(String, String)>;
}

pub fn violation(prop: &str, class: &str, detail: String, seed: u64, idx: u64, case: &Case, out: &RunOutput) -> Violation {
    Violation {
        property: prop.to_string(),
        class: class.to_string(),
        detail,
        seed,
        idx,
        case: case.clone(),
        sched: SchedSpec::Replay { choices: out.rec.choices.clone() },
    }
}

/// classes of violation every check derives from the run itself
pub fn run_level_violation(out: &RunOutput) -> Option<(String, String)> {
    match &out.verdict {
        Verdict::Completed => {}
        Verdict::Deadlock(m) => return Some(("deadlock".into(), m.clone())),
        Verdict::StepLimit => return Some(("livelock".into(), "step budget exceeded".into())),
        Verdict::Crash(m) => {
            if m.starts_with("deadlock!") {
                return Some(("deadlock".into(), m.clone()));
            }
            return Some(("harness_crash".into(), m.clone()));
        }
    }
    for e in &out.log {
        if let Ev::Ret { op, res, .. } = e {
            if let Some(m) = first_panic(res) {
                if m.starts_with("deadlock!") {
                    return Some(("deadlock".into(), format!("{:?}: {}", op, m)));
                }
            }
        }
        if let Ev::Act { res, hid, .. } = e {
            if let Some(m) = first_panic(res) {
                if m.starts_with("deadlock!") {
                    return Some(("deadlock".into(), format!("in handler h{}: {}", hid, m)));
                }
            }
        }
    }
    None
}

pub fn first_panic(r: &Res) -> Option<&String> {
    match r {
        Res::P(m) => Some(m),
        Res::Many(xs) => xs.iter().find_map(first_panic),
        _ => None,
    }
}
