//! Minimisation of a failing (case, schedule): drop threads, operations, faults,
//! handler actions and context entries, shrink programs, then reduce the
//! context switches of the schedule — while the same violation class persists.

use crate::case::*;
use crate::expr::*;
use crate::prng::Prng;
use crate::prop::{Prop, Rt, Violation};
use crate::sched::SchedSpec;
use std::sync::Arc;
use std::time::{Duration, Instant};

pub struct Shrinker<'a> {
    prop: &'a dyn Prop,
    class: String,
    pub judged: usize,
    budget: usize,
    deadline: Instant,
    rt: Rt,
    seed: u64,
}

fn expr_candidates(e: &Expr) -> Vec<Expr> {
    // smaller replacements for e, simplest first
    let mut out = vec![];
    match e {
        Expr::Lit(Val::Num(s)) if s != "1" && s != "0" => out.push(lit_i(1)),
        Expr::Lit(_) | Expr::Ref(_) => {}
        _ => {
            for c in e.children() {
                out.push(c.clone());
            }
            out.push(lit_i(1));
            out.push(lit_b(true));
        }
    }
    // recurse: replace one child by a candidate
    match e {
        Expr::Call(n, a) => {
            for i in 0..a.len() {
                // (never shrink an aggregate to zero arguments: `min()` is C04's business)
                if a.len() == 1 && ["min", "max", "sum", "mul"].contains(&n.as_str()) {
                    continue;
                }
                let mut b = a.clone();
                b.remove(i);
                out.push(Expr::Call(n.clone(), b));
            }
            for i in 0..a.len() {
                for c in expr_candidates(&a[i]) {
                    let mut b = a.clone();
                    b[i] = c;
                    out.push(Expr::Call(n.clone(), b));
                }
            }
        }
        Expr::List(a) => {
            for i in 0..a.len() {
                let mut b = a.clone();
                b.remove(i);
                out.push(Expr::List(b));
            }
            for i in 0..a.len() {
                for c in expr_candidates(&a[i]) {
                    let mut b = a.clone();
                    b[i] = c;
                    out.push(Expr::List(b));
                }
            }
        }
        Expr::Map(a) => {
            for i in 0..a.len() {
                let mut b = a.clone();
                b.remove(i);
                out.push(Expr::Map(b));
            }
            for i in 0..a.len() {
                for c in expr_candidates(&a[i].0) {
                    let mut b = a.clone();
                    b[i].0 = c;
                    out.push(Expr::Map(b));
                }
                for c in expr_candidates(&a[i].1) {
                    let mut b = a.clone();
                    b[i].1 = c;
                    out.push(Expr::Map(b));
                }
            }
        }
        Expr::Un(op, x) => {
            for c in expr_candidates(x) {
                out.push(Expr::Un(op.clone(), Box::new(c)));
            }
        }
        Expr::Post(x, op) => {
            for c in expr_candidates(x) {
                out.push(Expr::Post(Box::new(c), op.clone()));
            }
        }
        Expr::Bin(op, l, r) => {
            for c in expr_candidates(l) {
                out.push(Expr::Bin(op.clone(), Box::new(c), r.clone()));
            }
            for c in expr_candidates(r) {
                out.push(Expr::Bin(op.clone(), l.clone(), Box::new(c)));
            }
        }
        Expr::Tern(c0, a, b) => {
            for c in expr_candidates(c0) {
                out.push(Expr::Tern(Box::new(c), a.clone(), b.clone()));
            }
            for c in expr_candidates(a) {
                out.push(Expr::Tern(c0.clone(), Box::new(c), b.clone()));
            }
            for c in expr_candidates(b) {
                out.push(Expr::Tern(c0.clone(), a.clone(), Box::new(c)));
            }
        }
        _ => {}
    }
    out
}

fn prog_candidates(p: &Prog) -> Vec<Prog> {
    let mut out = vec![];
    match p {
        Prog::Stmts(xs) => {
            if xs.len() > 1 {
                for i in 0..xs.len() {
                    let mut b = xs.clone();
                    b.remove(i);
                    out.push(Prog::Stmts(b));
                }
            }
            for i in 0..xs.len() {
                for c in expr_candidates(&xs[i]) {
                    let mut b = xs.clone();
                    b[i] = c;
                    out.push(Prog::Stmts(b));
                }
            }
        }
        Prog::Chain(operands, ops) => {
            if ops.len() > 1 {
                for i in 0..ops.len() {
                    let mut a = operands.clone();
                    let mut o = ops.clone();
                    o.remove(i);
                    a.remove(i + 1);
                    out.push(Prog::Chain(a, o));
                }
            }
        }
    }
    out
}

fn op_progs(op: &Op) -> Vec<Op> {
    // variants of op with a smaller program
    let mut out = vec![];
    match op {
        Op::Exec { prog, ctx } => {
            for p in prog_candidates(prog) {
                out.push(Op::Exec { prog: p, ctx: ctx.clone() });
            }
        }
        Op::ExecSole { prog, slot } => {
            for p in prog_candidates(prog) {
                out.push(Op::ExecSole { prog: p, slot: *slot });
            }
        }
        Op::Parse { prog } => {
            for p in prog_candidates(prog) {
                out.push(Op::Parse { prog: p });
            }
        }
        Op::Describe { prog } => {
            for p in prog_candidates(prog) {
                out.push(Op::Describe { prog: p });
            }
        }
        Op::ParseExec { prog, ctx, times } => {
            if *times > 1 {
                out.push(Op::ParseExec { prog: prog.clone(), ctx: ctx.clone(), times: times - 1 });
            }
            for p in prog_candidates(prog) {
                out.push(Op::ParseExec { prog: p, ctx: ctx.clone(), times: *times });
            }
        }
        Op::OnThreadExit { ops, late } => {
            // first: the same operations on a thread that merely runs them (is the teardown needed at all?)
            out.push(Op::OnThread { ops: ops.clone() });
            for i in 0..ops.len() {
                let mut b = ops.clone();
                b.remove(i);
                out.push(Op::OnThreadExit { ops: b, late: *late });
            }
        }
        Op::OnThread { ops } => {
            for i in 0..ops.len() {
                let mut b = ops.clone();
                b.remove(i);
                out.push(Op::OnThread { ops: b });
            }
        }
        Op::WithManager { regs, then } => {
            for i in 0..regs.len() {
                let mut b = regs.clone();
                b.remove(i);
                out.push(Op::WithManager { regs: b, then: then.clone() });
            }
            for i in 0..then.len() {
                let mut b = then.clone();
                b.remove(i);
                out.push(Op::WithManager { regs: regs.clone(), then: b });
            }
        }
        _ => {}
    }
    out
}

impl<'a> Shrinker<'a> {
    pub fn new(prop: &'a dyn Prop, class: &str, seed: u64) -> Shrinker<'a> {
        Shrinker {
            prop,
            class: class.to_string(),
            judged: 0,
            budget: 6000,
            deadline: Instant::now() + Duration::from_secs(90),
            rt: Rt::new(),
            seed,
        }
    }

    fn exhausted(&self) -> bool {
        self.judged >= self.budget || Instant::now() > self.deadline
    }

    fn fails(&mut self, case: &Case, spec: &SchedSpec) -> Option<String> {
        self.judged += 1;
        match self.prop.judge_one(&Arc::new(case.clone()), spec, &mut self.rt) {
            Some((c, d)) if c == self.class => Some(d),
            _ => None,
        }
    }

    /// find a schedule under which `case` still fails with the same class
    fn find_sched(&mut self, case: &Case, old: &SchedSpec, tries: u64) -> Option<(SchedSpec, String)> {
        if let Some(d) = self.fails(case, old) {
            return Some((old.clone(), d));
        }
        if case.threads.is_empty() {
            return None;
        }
        if let Some(d) = self.fails(case, &SchedSpec::Lowest) {
            return Some((SchedSpec::Lowest, d));
        }
        let mut r = Prng::derive(self.seed, "shrink.sched", self.judged as u64);
        for j in 1..=tries {
            if self.exhausted() {
                return None;
            }
            let spec = crate::props::c13::schedule_for(&mut r, j, 60);
            if let Some(d) = self.fails(case, &spec) {
                return Some((spec, d));
            }
        }
        None
    }

    fn case_candidates(case: &Case) -> Vec<Case> {
        let mut out = vec![];
        for t in 0..case.threads.len() {
            let mut c = case.clone();
            c.threads.remove(t);
            out.push(c);
        }
        if let Some(f) = &case.fault {
            let mut c = case.clone();
            c.fault = None;
            out.push(c);
            if f.k > 0 {
                let mut c = case.clone();
                c.fault.as_mut().unwrap().k = f.k - 1;
                out.push(c);
            }
        }
        for i in (0..case.post.len()).rev() {
            let mut c = case.clone();
            c.post.remove(i);
            out.push(c);
        }
        for t in 0..case.threads.len() {
            for i in (0..case.threads[t].len()).rev() {
                let mut c = case.clone();
                c.threads[t].remove(i);
                out.push(c);
            }
        }
        for i in (0..case.pre.len()).rev() {
            let mut c = case.clone();
            c.pre.remove(i);
            out.push(c);
        }
        for h in 0..case.handlers.len() {
            for a in 0..case.handlers[h].actions.len() {
                let mut c = case.clone();
                c.handlers[h].actions.remove(a);
                out.push(c);
            }
        }
        // smaller programs
        for i in 0..case.pre.len() {
            for o in op_progs(&case.pre[i]) {
                let mut c = case.clone();
                c.pre[i] = o;
                out.push(c);
            }
        }
        for t in 0..case.threads.len() {
            for i in 0..case.threads[t].len() {
                for o in op_progs(&case.threads[t][i]) {
                    let mut c = case.clone();
                    c.threads[t][i] = o;
                    out.push(c);
                }
            }
        }
        for i in 0..case.post.len() {
            for o in op_progs(&case.post[i]) {
                let mut c = case.clone();
                c.post[i] = o;
                out.push(c);
            }
        }
        for s in 0..case.slots.len() {
            for v in 0..case.slots[s].vars.len() {
                let mut c = case.clone();
                c.slots[s].vars.remove(v);
                out.push(c);
            }
        }
        out
    }

    fn shrink_schedule(&mut self, case: &Case, spec: SchedSpec, detail: String) -> (SchedSpec, String) {
        // materialise into an explicit choice list first
        let out = crate::simrt::run_case(&Arc::new(case.clone()), &spec);
        let mut choices = out.rec.choices.clone();
        let mut best = (SchedSpec::Replay { choices: choices.clone() }, detail);
        if self.fails(case, &best.0).is_none() {
            return (spec, best.1);
        }
        // truncate the tail (fallback = stay on the current task)
        let mut lo = 0usize;
        let mut hi = choices.len();
        while lo < hi && !self.exhausted() {
            let mid = (lo + hi) / 2;
            let cand = SchedSpec::Replay { choices: choices[..mid].to_vec() };
            if let Some(d) = self.fails(case, &cand) {
                hi = mid;
                best = (cand, d);
            } else {
                lo = mid + 1;
            }
        }
        choices.truncate(hi);
        // remove context switches: make choice i equal to choice i-1
        let mut i = 1;
        while i < choices.len() && !self.exhausted() {
            if choices[i] != choices[i - 1] {
                let mut c2 = choices.clone();
                c2[i] = c2[i - 1];
                let cand = SchedSpec::Replay { choices: c2.clone() };
                if let Some(d) = self.fails(case, &cand) {
                    choices = c2;
                    best = (cand, d);
                    continue;
                }
            }
            i += 1;
        }
        best
    }

    pub fn run(&mut self, v: &Violation) -> Violation {
        let mut case = v.case.clone();
        let mut spec = v.sched.clone();
        let mut detail = v.detail.clone();
        // the original must reproduce in this process first
        match self.find_sched(&case, &spec, 0) {
            Some((s, d)) => {
                spec = s;
                detail = d;
            }
            None => return v.clone(),
        }
        let mut progress = true;
        while progress && !self.exhausted() {
            progress = false;
            for cand in Self::case_candidates(&case) {
                if self.exhausted() {
                    break;
                }
                let tries = if cand.threads.len() >= 2 { 120 } else { 4 };
                if let Some((s, d)) = self.find_sched(&cand, &spec, tries) {
                    case = cand;
                    spec = s;
                    detail = d;
                    progress = true;
                    break;
                }
            }
        }
        let (spec, detail) = self.shrink_schedule(&case, spec, detail);
        Violation { property: v.property.clone(), class: v.class.clone(), detail, seed: v.seed, idx: v.idx, case, sched: spec }
    }
}
