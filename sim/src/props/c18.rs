//! C18 — describe() renders each node with exactly the descriptor registered
//! for it.  Descriptor-registration histories (through the verif_hooks
//! re-export) in a fresh simulated process against a reference describe().

use crate::case::*;
use crate::expr::*;
use crate::gen::*;
use crate::modelcheck::*;
use crate::prng::Prng;
use crate::prop::*;
use crate::sched::SchedSpec;
use serde_json::json;
use std::sync::Arc;

pub struct C18;

/// a program with all nine node kinds and look-alike names
/// (`-` unary and binary, `+` unary / `++` postfix, `f` function and reference)
fn all_kinds_program() -> Prog {
    Prog::Stmts(vec![
        bin("-", un("-", rf("a")), rf("f")),
        tern(rf("a"), post(rf("b"), "++"), un("+", lit_i(1))),
        call("f", vec![rf("a"), Expr::List(vec![lit_i(1), rf("zz")])]),
        Expr::Map(vec![(lit_s("k"), call("g", vec![]))]),
        bin("+", lit_i(2), post(lit_i(3), "--")),
        // any operator token in prefix position is a Unary node: same symbol as prefix and postfix
        un("++", post(rf("a"), "++")),
        un("--", rf("zz")),
        // references as assignment targets are references like any other
        bin("=", rf("a"), lit_i(3)),
        bin("+=", rf("zz"), rf("f")),
        bin("*", rf("priceAa"), bin("<", rf("priceBB"), call("priceAa", vec![call("priceBB", vec![])]))),
    ])
}

// (`priceAa` / `priceBB` collide under the classic h*31+byte string hash; `*` looks like a wildcard but is
// the multiplication operator)
const NAMES: [&str; 12] = ["-", "+", "++", "--", "f", "g", "a", "zz", "never_used", "priceAa", "priceBB", "*"];

/// every single (kind[, name]) registration
pub fn singles() -> Vec<(DKind, String)> {
    let mut v = vec![];
    for k in DKINDS {
        if k.named() {
            for n in NAMES {
                v.push((k, n.to_string()));
            }
        } else {
            v.push((k, String::new()));
        }
    }
    v
}

fn single_case(k: DKind, name: &str) -> Case {
    let mut c = Case::new(&format!("single:{:?}:{}", k, name));
    // describe before (defaults), register, describe after, also of a single-statement program
    c.pre.push(Op::Describe { prog: all_kinds_program() });
    c.pre.push(Op::SetDesc { kind: k, name: name.to_string(), id: 1 });
    c.pre.push(Op::Describe { prog: all_kinds_program() });
    c.pre.push(Op::Describe { prog: Prog::one(bin("-", rf("a"), un("-", lit_i(1)))) });
    c.pre.push(Op::Describe { prog: Prog::Stmts(vec![]) });
    c
}

/// pairs of DIFFERENT trees whose expr() rendering is the same text
fn twins() -> Vec<(Prog, Prog)> {
    vec![
        (Prog::one(un("-", bin("+", rf("a"), rf("f")))), Prog::one(bin("+", un("-", rf("a")), rf("f")))),
        (Prog::one(bin("beginWith", lit_s("x"), lit_s("y"))), Prog::one(lit_s("x\" beginWith \"y"))),
        (Prog::one(post(bin("+", rf("a"), lit_i(1)), "++")), Prog::one(bin("+", rf("a"), post(lit_i(1), "++")))),
    ]
}

/// a program with EXACTLY ONE node rendered through the descriptor key (kind, name): describe() then
/// makes one decisive lookup of that key, so "old or new descriptor, never neither" is exactly
/// linearizability (a describe that looks one re-registered key up at several nodes may mix old and new;
/// C18 does not forbid that and it is not demanded here)
fn one_node_program(k: DKind, n: &str) -> Prog {
    let q = || rf("q");
    match k {
        DKind::Unary => Prog::one(bin("*", un(n, q()), lit_i(2))),
        DKind::Binary => Prog::one(Expr::List(vec![bin(n, q(), lit_i(2))])),
        DKind::Postfix => Prog::one(bin("*", post(q(), n), lit_i(2))),
        DKind::Function => Prog::one(bin("*", call(n, vec![q()]), lit_i(2))),
        DKind::Reference => Prog::one(bin("*", rf(n), lit_i(2))),
        DKind::Ternary => Prog::one(bin("*", tern(q(), lit_i(1), lit_i(2)), lit_i(2))),
        DKind::List => Prog::one(bin("in", q(), Expr::List(vec![lit_i(1), lit_i(2)]))),
        DKind::Map => Prog::one(bin("==", q(), Expr::Map(vec![(lit_s("k"), lit_i(1))]))),
        DKind::Chain => Prog::Stmts(vec![bin("*", q(), lit_i(2)), lit_i(3)]),
    }
}

/// describe() calls racing with RE-registrations of the one descriptor they use: every rendering
/// must use the old or the new descriptor (linearizable against the sequential engine), never neither
fn concurrent_describe_case(r: &mut Prng) -> Case {
    let mut c = Case::new("concurrent-describe");
    let named: Vec<(DKind, &str)> = vec![
        (DKind::Unary, "-"),
        (DKind::Unary, "!"),
        (DKind::Binary, "-"),
        (DKind::Binary, "+"),
        (DKind::Postfix, "++"),
        (DKind::Function, "f"),
        (DKind::Reference, "zz"),
        (DKind::Ternary, ""),
        (DKind::List, ""),
        (DKind::Map, ""),
        (DKind::Chain, ""),
    ];
    let (k, n) = *r.pick(&named);
    let prog = one_node_program(k, n);
    let mut id = 1;
    if r.chance(1, 2) {
        c.pre.push(Op::Describe { prog: prog.clone() });
    }
    if r.chance(3, 4) {
        // already registered: from now on the default rendering is never a legal answer
        c.pre.push(Op::SetDesc { kind: k, name: n.to_string(), id });
        id += 1;
    }
    let mut regs = vec![];
    for _ in 0..(1 + r.usize(3)) {
        regs.push(Op::SetDesc { kind: k, name: n.to_string(), id });
        id += 1;
    }
    let ndesc = 1 + r.usize(2);
    let describers: Vec<Vec<Op>> = (0..ndesc).map(|_| (0..(1 + r.usize(2))).map(|_| Op::Describe { prog: prog.clone() }).collect()).collect();
    c.threads.push(regs);
    c.threads.extend(describers);
    c.post.push(Op::Describe { prog });
    c
}

fn seeded_case(r: &mut Prng, big: bool) -> Case {
    let mut c = Case::new("seeded");
    c.slots.push(CtxSpec::empty());
    let n = 2 + r.usize(if big { 24 } else { 10 });
    let mut next_id = 1;
    let mut progs: Vec<Prog> = vec![all_kinds_program()];
    // a few generated programs (no observable nodes; names drawn from the descriptor name pool where possible)
    for _ in 0..2 {
        let knobs = Knobs {
            observable: 0,
            max_depth: 2 + r.below(2) as u32,
            max_nodes: 12,
            ctx_call: false,
            ctx_bare: false,
            global_fn: false,
            ops: false,
            assignments: false,
            dumpers: false,
        };
        let depth = knobs.max_depth;
        let mut g = Gen::new(r, &mut c, knobs, 0);
        g.vars = vec![("a".into(), Ty::Int), ("f".into(), Ty::Int), ("zz".into(), Ty::Bool)];
        let nst = 1 + g.r.usize(3);
        let stmts = (0..nst)
            .map(|_| {
                g.nodes = 0;
                g.any(depth)
            })
            .collect();
        progs.push(Prog::Stmts(stmts));
    }
    if r.chance(1, 2) {
        // the engine may or may not have been used before the first descriptor registration
        c.pre.push(Op::Parse { prog: Prog::one(lit_i(1)) });
    }
    for _ in 0..n {
        if r.chance(3, 5) {
            let k = *r.pick(&DKINDS);
            let name = if k.named() { r.pick(&NAMES).to_string() } else { String::new() };
            let id = match r.below(12) {
                0 => REENTRANT_DESC + next_id,
                // a descriptor that REGISTERS a descriptor and then describes a node it applies to
                1 => REG_DESC + next_id,
                // a descriptor may render its node as the empty string
                2 => EMPTY_DESC + next_id,
                // a descriptor that describes a tree containing (possibly) its own key, limiting its own recursion
                3 => SELF_DESC + next_id,
                _ => next_id,
            };
            let op = Op::SetDesc { kind: k, name, id };
            // one registration in six is made by another (spawned and joined) thread
            c.pre.push(if r.chance(1, 6) { Op::OnThread { ops: vec![op] } } else { op });
            next_id += 1;
        } else {
            let op = Op::Describe { prog: r.pick(&progs).clone() };
            // ... and every other one of those once more while that thread ENDS (from the destructor of a
            // thread-local of the caller, destroyed before or after whatever the engine keeps per thread)
            let n = c.pre.len();
            c.pre.push(if r.chance(1, 8) {
                if n % 2 == 0 { Op::OnThreadExit { ops: vec![op], late: n % 4 == 0 } } else { Op::OnThread { ops: vec![op] } }
            } else {
                op
            });
        }
    }
    if r.chance(1, 3) {
        // registrations of DIFFERENT (kind, name) pairs made concurrently by two threads: both must
        // be in effect once both have returned
        let mut keys: Vec<(DKind, String)> = singles();
        r.shuffle(&mut keys);
        let nk = 2 + r.usize(5);
        let mut threads = vec![vec![], vec![]];
        for (i, (k, n)) in keys.into_iter().take(nk).enumerate() {
            threads[i % 2].push(Op::SetDesc { kind: k, name: n, id: next_id });
            next_id += 1;
        }
        c.threads = threads;
        c.post.push(Op::Describe { prog: all_kinds_program() });
        c.post.push(Op::Describe { prog: progs[1].clone() });
    }
    if r.chance(1, 5) {
        // a manager handle KEPT in a binding: what is registered through it is in effect at once (describe()
        // while the handle is alive), a later registration of the same key through another handle wins,
        // and dropping the handle changes nothing
        let (k, name) = r.pick(&singles()).clone();
        let (k2, name2) = r.pick(&singles()).clone();
        let regs = vec![(k, name.clone(), next_id), (k2, name2, next_id + 1)];
        let mut then = vec![Op::Describe { prog: all_kinds_program() }];
        if r.chance(1, 2) {
            then.push(Op::SetDesc { kind: k, name, id: next_id + 2 });
            then.push(Op::Describe { prog: all_kinds_program() });
        }
        next_id += 3;
        c.pre.push(Op::WithManager { regs, then });
        c.pre.push(Op::Describe { prog: all_kinds_program() });
    }
    if r.chance(1, 16) {
        // a LONG registration history (70..200 registrations, most of them for unrelated names, some keys
        // registered again and again): the latest registration of every key stays in effect
        let n = 70 + r.usize(if big { 330 } else { 130 });
        let hot: Vec<(DKind, String)> = (0..3).map(|_| r.pick(&singles()).clone()).collect();
        for i in 0..n {
            let (k, name) = if r.chance(1, 5) {
                r.pick(&hot).clone()
            } else {
                let k = *r.pick(&[DKind::Unary, DKind::Binary, DKind::Postfix, DKind::Function, DKind::Reference]);
                (k, format!("unrelated{}", i))
            };
            c.pre.push(Op::SetDesc { kind: k, name, id: next_id });
            next_id += 1;
            if r.chance(1, 25) {
                c.pre.push(Op::Describe { prog: all_kinds_program() });
            }
        }
        c.tag = "seeded+long-registration-history".into();
    }
    c.pre.push(Op::Describe { prog: all_kinds_program() });
    c.pre.push(Op::Describe { prog: progs[1].clone() });
    // different trees with the same expr() text, described one after the other
    let (t1, t2) = r.pick(&twins()).clone();
    let (t1, t2) = if r.chance(1, 2) { (t1, t2) } else { (t2, t1) };
    c.pre.push(Op::Describe { prog: t1 });
    c.pre.push(Op::Describe { prog: t2 });
    if r.chance(1, 6) {
        // a flat-looking but 80-operand (left-deep) chain
        let n = 70 + r.usize(30);
        c.pre.push(Op::Describe { prog: Prog::Chain((0..=n).map(|i| rf(&format!("item{}", i))).collect(), (0..n).map(|_| "+".to_string()).collect()) });
    }
    c
}

fn judge(case: &Arc<Case>, out: &crate::simrt::RunOutput, rt: &mut Rt) -> Option<(String, String)> {
    match judge_vs_model(case, out, rt) {
        Judged::Violated(c, d) => Some((c, d)),
        Judged::Skipped(u) => {
            rt.skip(&format!("unmodelled: {}", u.split(':').next().unwrap_or("")));
            None
        }
        Judged::Held(_) => None,
    }
}

impl Prop for C18 {
    fn meta(&self) -> PropMeta {
        PropMeta {
            id: "C18",
            level: "exploration",
            rule: "exhaustive part: every single (kind[, name]) descriptor registration - 5 named kinds x 12 names (operators/names used by the programs and \
                   look-alikes under another kind) + 4 unnamed kinds = 64 cases - each against a program containing all nine node kinds, a one-statement \
                   program and the empty program, describe() before and after; sampled part: seeded histories of 2..11 registrations / re-registrations \
                   interleaved with describe() of the all-kinds program and of generated programs, in a fresh simulated process (the engine used or not \
                   before the first registration); a sixth of the descriptors re-enter the engine (parse_expression + describe from inside the descriptor); in a \
                   third of the seeded cases two simulated threads register different (kind, name) pairs concurrently under seeded schedules; every history ends by \
                   describing two different trees whose expr() text is identical; every sixth case races describe() calls against RE-registrations of the \
                   descriptors they use and is judged by linearizability against the sequential engine. evaluations = simulated executions; distinct_nontrivial = distinct histories with at least one \
                   registration followed by a describe() that contains a node of the registered kind",
            assumptions: &[
                "descriptor registration is reachable only through the cfg-guarded verif_hooks re-export of DescriptorManager",
                "the reference describe() walks the harness's own tree; literal rendering is expr()'s (numbers as written, strings in double quotes)",
            ],
            fault_kinds: &["fresh_process", "register_before_first_use", "reenter_describe", "preempt_in_call", "thread_teardown"],
            probes: &["single_registrations_run", "binary_descriptor_used", "lookalike_name_other_kind", "re_registration", "concurrent_registrations", "same_symbol_prefix_and_postfix", "operation_on_another_thread", "describe_races_reregistration", "manager_handle_kept_across_describe", "long_registration_history"],
        }
    }

    fn n_indices(&self, tier: Tier) -> u64 {
        singles().len() as u64 + 30000 * tier.scale()
    }

    fn run_index(&self, idx: u64, seed: u64, tier: Tier, rt: &mut Rt) -> Vec<Violation> {
        let s = singles();
        let case = if (idx as usize) < s.len() {
            rt.probe("single_registrations_run");
            let (k, n) = &s[idx as usize];
            if *k == DKind::Binary && ["-", "+"].contains(&n.as_str()) {
                rt.probe("binary_descriptor_used");
            }
            if (*k == DKind::Unary || *k == DKind::Postfix) && (n == "++" || n == "--") {
                rt.probe("same_symbol_prefix_and_postfix");
            }
            if (*k == DKind::Unary && n == "++") || (*k == DKind::Reference && n == "g") || (*k == DKind::Function && n == "a") {
                rt.probe("lookalike_name_other_kind");
            }
            single_case(*k, n)
        } else {
            let mut r = Prng::derive(seed, "C18.case", idx);
            if idx % 6 == 5 {
                // concurrent describe vs re-registration: linearizability against the sequential engine
                let case = Arc::new(concurrent_describe_case(&mut r));
                rt.case_seen(case.fingerprint());
                rt.probe("describe_races_reregistration");
                let mut oracle = crate::lin::SeqOracle::new(&case);
                let mut sr = Prng::derive(seed, "C18.sched", idx);
                let mut decisions = 0;
                for j in 0..16 {
                    let spec = crate::props::c13::schedule_for(&mut sr, j, decisions);
                    let out = rt.sim(&case, &spec);
                    if j == 0 {
                        decisions = out.rec.decisions;
                    }
                    rt.fired("preempt_in_call", out.rec.preemptions as u64);
                    rt.fired("fresh_process", 1);
                    if let Some((c, d)) = crate::props::c13::lin_judge(&case, &out, &mut oracle, rt, false) {
                        return vec![violation("C18", &c, d, seed, idx, &case, &out)];
                    }
                }
                return vec![];
            }
            seeded_case(&mut r, tier == Tier::Thorough)
        };
        let case = Arc::new(case);
        rt.case_seen(case.fingerprint());
        if let Err(why) = preflight(&case, rt) {
            rt.skip(&format!("preflight: {}", why.split_whitespace().take(3).collect::<Vec<_>>().join(" ")));
            return vec![];
        }
        let mut out = rt.sim(&case, &SchedSpec::Lowest);
        let first_hash = out.history_hash();
        rt.fired("fresh_process", 1);
        if !case.threads.is_empty() {
            // concurrent registrations: a few seeded schedules
            rt.probe("concurrent_registrations");
            let mut sr = Prng::derive(seed, "C18.sched", idx);
            for j in 1..8 {
                if let Some((c, d)) = judge(&case, &out, rt) {
                    return vec![violation("C18", &c, d, seed, idx, &case, &out)];
                }
                let spec = crate::props::c13::schedule_for(&mut sr, j, out.rec.decisions);
                out = rt.sim(&case, &spec);
                rt.fired("preempt_in_call", out.rec.preemptions as u64);
            }
        }
        if case.pre.iter().any(|o| matches!(o, Op::SetDesc { id, .. } if *id >= REENTRANT_DESC && *id < EMPTY_DESC)) {
            rt.fired("reenter_describe", 1);
        }
        if matches!(case.pre.first(), Some(Op::SetDesc { .. })) {
            rt.fired("register_before_first_use", 1);
        }
        let mut seen = std::collections::BTreeSet::new();
        let mut nontrivial = false;
        let flat: Vec<&Op> = case.pre.iter().flat_map(|o| match o {
            Op::OnThread { ops } | Op::OnThreadExit { ops, .. } => ops.iter().collect::<Vec<_>>(),
            Op::WithManager { then, .. } => {
                rt.probe("manager_handle_kept_across_describe");
                then.iter().collect::<Vec<_>>()
            }
            o => vec![o],
        }).collect();
        if case.tag.ends_with("long-registration-history") {
            rt.probe("long_registration_history");
        }
        if case.pre.iter().any(|o| matches!(o, Op::OnThread { .. } | Op::OnThreadExit { .. })) {
            rt.probe("operation_on_another_thread");
        }
        if case.pre.iter().any(|o| matches!(o, Op::OnThreadExit { .. })) {
            rt.fired("thread_teardown", 1);
        }
        for op in flat {
            match op {
                Op::SetDesc { kind, name, .. } => {
                    if !seen.insert((*kind, name.clone())) {
                        rt.probe("re_registration");
                    }
                }
                Op::Describe { .. } if !seen.is_empty() => nontrivial = true,
                _ => {}
            }
        }
        if nontrivial {
            rt.nontrivial(case.fingerprint());
        }
        if idx % 16 == 0 {
            rt.sample(json!({
                "case": case.tag,
                "history": case.pre.iter().map(|o| match o { Op::SetDesc{kind,name,id} => format!("set_{:?}_descriptor({:?}) -> marker {}", kind, name, id), o => crate::props::c13::show_op(o) }).collect::<Vec<_>>(),
                "results": out.results().iter().map(|(id, r)| format!("{:?} -> {}", id, r.show())).collect::<Vec<_>>(),
            }));
        }
        if idx % 64 == 0 {
            let again = rt.sim(&case, &SchedSpec::Lowest);
            rt.stats.determinism_rechecks += 1;
            if again.history_hash() != first_hash {
                rt.stats.nondeterminism.push(format!("C18 idx {}", idx));
            }
        }
        match judge(&case, &out, rt) {
            Some((c, d)) => vec![violation("C18", &c, d, seed, idx, &case, &out)],
            None => vec![],
        }
    }

    fn judge_one(&self, case: &Arc<Case>, spec: &SchedSpec, rt: &mut Rt) -> Option<(String, String)> {
        let out = rt.sim(case, spec);
        if case.tag == "concurrent-describe" {
            let mut oracle = crate::lin::SeqOracle::new(case);
            return crate::props::c13::lin_judge(case, &out, &mut oracle, rt, false);
        }
        judge(case, &out, rt)
    }
}
