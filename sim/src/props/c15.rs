//! C15 — a failing or panicking handler is contained.  Programs from the C07
//! generator; for EVERY handler invocation index k an Err and a panic are
//! injected (two runs per k); afterwards a follow-up phase uses the same
//! context, the registries and another thread and must behave exactly as the
//! model predicts "as if the failed evaluation had stopped at that point".

use crate::case::*;
use crate::expr::*;
use crate::modelcheck::*;
use crate::prng::Prng;
use crate::prop::*;
use crate::sched::SchedSpec;
use serde_json::json;
use std::sync::Arc;

pub struct C15;

fn follow_up(r: &mut Prng, case: &mut Case) {
    let slot = 0;
    let funcs: Vec<String> = case.slots[slot].funcs.iter().map(|(n, _)| n.clone()).collect();
    let mut post = vec![];
    if case.tag == "C15-same-thread" {
        let hn = case.add_handler(HandlerSpec::plain(HKind::Infix, Ret::Marker));
        post.push(Op::OnThread { ops: vec![Op::RegIn { name: "st_op".into(), prec: 105, setter: false, right: false, h: hn }] });
        post.push(Op::Exec { prog: Prog::one(bin("st_op", lit_i(3), lit_i(4))), ctx: CtxRef::Slot(slot) });
    }
    for n in ["x", "y"] {
        post.push(Op::CtxGetVar { slot, name: n.into() });
    }
    post.push(Op::CtxGet { slot, name: (*r.pick(&["x", "z", "nope"])).into() });
    // every context function must still be bound afterwards, and still be reachable by bare name
    for f in &funcs {
        post.push(Op::CtxHasFunc { slot, name: f.clone() });
    }
    for f in funcs.iter().filter(|f| f.starts_with('b')).take(3) {
        post.push(Op::CtxValue { slot, name: f.clone() });
    }
    // bare-name lookups as the evaluator does them: a variable and (if any) a context function
    post.push(Op::CtxValue { slot, name: "w".into() });
    if !funcs.is_empty() && r.chance(1, 2) {
        post.push(Op::CtxValue { slot, name: r.pick(&funcs).clone() });
    }
    post.push(Op::CtxSetVar { slot, name: "fresh".into(), val: Val::int(7) });
    post.push(Op::Exec {
        prog: Prog::Stmts(vec![bin("=", rf("after"), bin("+", rf("fresh"), lit_i(1))), rf("after")]),
        ctx: CtxRef::Slot(slot),
    });
    post.push(Op::Exec { prog: Prog::one(bin("+", lit_i(1), bin("*", lit_i(2), lit_i(3)))), ctx: CtxRef::Fresh(CtxSpec::empty()) });
    // registrations of all four kinds, then uses
    let hf = case.add_handler(HandlerSpec::plain(HKind::Func, Ret::Marker));
    let hp = case.add_handler(HandlerSpec::plain(HKind::Prefix, Ret::Marker));
    let hi = case.add_handler(HandlerSpec::plain(HKind::Infix, Ret::Marker));
    let hq = case.add_handler(HandlerSpec::plain(HKind::Postfix, Ret::Marker));
    post.push(Op::RegFn { name: "fu_f".into(), h: hf });
    post.push(Op::RegPre { name: "fu_p".into(), h: hp });
    post.push(Op::RegIn { name: "fu_i".into(), prec: 105, setter: false, right: false, h: hi });
    post.push(Op::RegPost { name: "fu_q".into(), h: hq });
    post.push(Op::Exec {
        prog: Prog::one(call("fu_f", vec![un("fu_p", lit_i(1)), bin("fu_i", lit_i(2), post_e(lit_i(3), "fu_q"))])),
        ctx: CtxRef::Slot(slot),
    });
    // another thread: same context, registries, a fresh context
    let ht = case.add_handler(HandlerSpec::plain(HKind::Func, Ret::Marker));
    let mut tops = vec![
        Op::Exec { prog: Prog::one(rf("x")), ctx: CtxRef::Slot(slot) },
        Op::CtxGetVar { slot, name: "after".into() },
        Op::RegFn { name: "fu_t".into(), h: ht },
        Op::Exec { prog: Prog::one(call("fu_t", vec![call("min", vec![lit_i(3), lit_i(1)])])), ctx: CtxRef::Fresh(CtxSpec::empty()) },
    ];
    if let Some(f) = funcs.last() {
        // a context function of the kept context, by call, from the other thread
        tops.push(Op::Exec { prog: Prog::one(call(f, vec![])), ctx: CtxRef::Slot(slot) });
    }
    // an infix operator the faulted program used is re-registered BY ANOTHER THREAD, then used again here
    let used: Vec<(String, i32, bool)> = case
        .pre
        .iter()
        .filter_map(|o| match o {
            Op::RegIn { name, prec, setter: false, right, .. } => Some((name.clone(), *prec, *right)),
            _ => None,
        })
        .collect();
    if let Some((name, prec, right)) = used.first().cloned() {
        let hn = case.add_handler(HandlerSpec::plain(HKind::Infix, Ret::Marker));
        tops.push(Op::RegIn { name: name.clone(), prec, setter: false, right, h: hn });
        post.push(Op::OnThread { ops: tops });
        post.push(Op::Exec { prog: Prog::one(bin(&name, lit_i(1), lit_i(2))), ctx: CtxRef::Slot(slot) });
    } else {
        post.push(Op::OnThread { ops: tops });
    }
    post.push(Op::Describe { prog: Prog::one(bin("+", rf("x"), call("fu_f", vec![lit_i(1)]))) });
    post.push(Op::CtxDump { slot });
    case.post = post;
}

fn post_e(e: Expr, op: &str) -> Expr {
    post(e, op)
}

fn bystander(r: &mut Prng, case: &mut Case) -> Vec<Op> {
    let hb = case.add_handler(HandlerSpec::plain(HKind::Func, Ret::Marker));
    let mut ops = vec![Op::Exec {
        prog: Prog::one(bin("+", lit_i(r.range(0, 9)), call("max", vec![lit_i(2), lit_i(5)]))),
        ctx: CtxRef::Fresh(CtxSpec::empty()),
    }];
    if r.chance(1, 2) {
        ops.push(Op::RegFn { name: "bz".into(), h: hb });
        ops.push(Op::Exec { prog: Prog::one(call("bz", vec![lit_i(1)])), ctx: CtxRef::Fresh(CtxSpec::empty()) });
    }
    ops.push(Op::Parse { prog: Prog::one(tern(lit_b(true), lit_i(1), un("-", lit_i(2)))) });
    ops
}

pub fn gen_case(r: &mut Prng, big: bool) -> Case {
    let mut case = crate::props::c07::gen_case(r, "C15", true, big);
    if !case.handlers.is_empty() && r.chance(1, 5) {
        // containment across nesting levels: one handler of the program re-enters the engine and the
        // INNER evaluation invokes a handler too, so some fault positions lie inside it (an inner Err
        // stays inside the inner evaluation, an inner panic unwinds through both)
        let hi = case.add_handler(HandlerSpec::plain(HKind::CtxFunc, Ret::Const(Val::int(3))));
        let inner_ctx = CtxSpec { vars: vec![("v".into(), Val::int(2))], funcs: vec![("inner_fn".into(), hi)] };
        let inner = Op::Exec {
            prog: Prog::Stmts(vec![bin("=", rf("w"), bin("+", call("inner_fn", vec![rf("v")]), lit_i(1))), rf("w")]),
            ctx: CtxRef::Fresh(inner_ctx),
        };
        let n = case.handlers.len() - 1;
        let target = r.usize(n);
        if matches!(case.handlers[target].ret, Ret::Const(_)) {
            case.handlers[target].actions.push(inner);
        }
    }
    finish(r, case)
}

/// a program more than 64 levels deep (a left-deep operator chain, or nested lists with an operator
/// application at every level): containment must not depend on how deep the failing handler sits
pub fn deep_case(r: &mut Prng) -> Case {
    let mut case = Case::new("C15");
    case.slots.push(CtxSpec { vars: vec![("x".into(), Val::int(1)), ("w".into(), Val::s("xyz"))], funcs: vec![] });
    let h = case.add_handler(HandlerSpec::plain(HKind::Infix, Ret::Const(Val::int(1))));
    case.pre.push(Op::RegIn { name: "dp".into(), prec: 105, setter: false, right: false, h });
    let n = 70 + r.range(0, 25);
    let e = if r.chance(1, 2) {
        let mut e = lit_i(0);
        for i in 1..=n {
            e = bin("dp", e, lit_i(i));
        }
        e
    } else {
        let mut e = bin("dp", lit_i(1), lit_i(2));
        for i in 0..n {
            e = Expr::List(vec![bin("dp", lit_i(i), lit_i(i)), e]);
        }
        e
    };
    case.pre.push(Op::Exec { prog: Prog::Stmts(vec![bin("=", rf("r"), e), rf("x")]), ctx: CtxRef::Slot(0) });
    finish(r, case)
}

fn finish(r: &mut Prng, mut case: Case) -> Case {
    if r.chance(1, 4) {
        // the faulted evaluation stays on the main task: the follow-up then runs on the SAME thread
        // (whatever a failed evaluation leaves behind in its own thread shows there)
        case.tag = "C15-same-thread".into();
        // an operator of the harness is applied first in the faulted program; the follow-up has ANOTHER
        // thread re-register it and this thread apply it again as its very first evaluation after the failure
        let hs = case.add_handler(HandlerSpec::plain(HKind::Infix, Ret::Marker));
        case.pre.insert(0, Op::RegIn { name: "st_op".into(), prec: 105, setter: false, right: false, h: hs });
        for o in case.pre.iter_mut() {
            if let Op::Exec { prog: Prog::Stmts(st), .. } | Op::ExecSole { prog: Prog::Stmts(st), .. } | Op::ParseExec { prog: Prog::Stmts(st), .. } = o {
                st.insert(0, bin("st_op", lit_i(1), lit_i(2)));
            }
        }
    } else {
        // move the evaluation into simulated thread 0 (= task 1); registrations stay in `pre`
        let eval = case.pre.pop().unwrap();
        case.threads.push(vec![eval]);
        if r.chance(1, 3) {
            let b = bystander(r, &mut case);
            case.threads.push(b);
        }
    }
    follow_up(r, &mut case);
    case
}

/// fault storm: one process lifetime in which MANY evaluations fail (every n-th handler
/// invocation), at varying nesting depth, before the follow-up phase
pub fn storm_case(r: &mut Prng) -> Case {
    let mut case = Case::new("C15-storm");
    let hp = case.add_handler(HandlerSpec::plain(HKind::CtxFunc, Ret::Const(Val::int(3))));
    let hb = case.add_handler(HandlerSpec::plain(HKind::CtxFunc, Ret::Const(Val::int(4))));
    let hg = case.add_handler(HandlerSpec::plain(HKind::Func, Ret::Const(Val::int(5))));
    let hz = case.add_handler(HandlerSpec::plain(HKind::Prefix, Ret::Const(Val::int(6))));
    let hi = case.add_handler(HandlerSpec::plain(HKind::Infix, Ret::Const(Val::int(7))));
    let hq = case.add_handler(HandlerSpec::plain(HKind::Postfix, Ret::Const(Val::int(8))));
    case.slots.push(CtxSpec {
        vars: vec![("x".into(), Val::int(1)), ("y".into(), Val::int(2))],
        funcs: vec![("p1".into(), hp), ("b2".into(), hb)],
    });
    case.pre.push(Op::RegFn { name: "sg".into(), h: hg });
    case.pre.push(Op::RegPre { name: "sz".into(), h: hz });
    case.pre.push(Op::RegIn { name: "si".into(), prec: 115, setter: false, right: false, h: hi });
    case.pre.push(Op::RegPost { name: "sq".into(), h: hq });
    let observable = |r: &mut Prng| -> Expr {
        match r.below(6) {
            0 => call("p1", vec![rf("x")]),
            1 => rf("b2"),
            2 => call("sg", vec![lit_i(1), rf("y")]),
            3 => un("sz", lit_i(2)),
            4 => bin("si", rf("x"), lit_i(2)),
            _ => post(rf("y"), "sq"),
        }
    };
    let wrap = |r: &mut Prng, e: Expr| -> Expr {
        match r.below(6) {
            0 => bin("+", lit_i(1), e),
            1 => bin("*", e, lit_i(2)),
            2 => call("max", vec![e, lit_i(1)]),
            3 => tern(lit_b(true), e, lit_i(0)),
            4 => un("-", e),
            _ => bin("-", e, observable(r)),
        }
    };
    let nprog = 2 + r.usize(3);
    let mut progs = vec![];
    for _ in 0..nprog {
        let mut e = observable(r);
        for _ in 0..(1 + r.usize(9)) {
            e = wrap(r, e);
        }
        let mut stmts = vec![bin("=", rf("acc"), e)];
        if r.chance(1, 2) {
            stmts.push(rf("acc"));
        }
        progs.push(Prog::Stmts(stmts));
    }
    let n = 20 + r.usize(70);
    let mut ops = vec![];
    for _ in 0..n {
        let prog = r.pick(&progs).clone();
        ops.push(if r.chance(1, 3) {
            // (every other one as the only strong owner of the context's handle)
            if ops.len() % 2 == 0 { Op::ExecSole { prog, slot: 0 } } else { Op::ParseExec { prog, ctx: CtxRef::Slot(0), times: 1 } }
        } else {
            Op::Exec { prog, ctx: CtxRef::Slot(0) }
        });
    }
    // a healthy deep evaluation at the end of the storm
    ops.push(Op::Exec { prog: progs[0].clone(), ctx: CtxRef::Slot(0) });
    case.threads.push(ops);
    case.fault = Some(Fault {
        task: 1,
        k: r.usize(3),
        kind: if r.chance(1, 2) { FaultKind::Panic } else { FaultKind::Err },
        every: 1 + r.usize(3),
    });
    follow_up(r, &mut case);
    case
}

fn schedules(r: &mut Prng, case: &Case) -> Vec<SchedSpec> {
    let mut v = vec![SchedSpec::Lowest];
    if case.threads.len() > 1 {
        for j in 1..4 {
            v.push(crate::props::c13::schedule_for(r, j, 80));
        }
    }
    v
}

fn kind_of_faulted(case: &Case, out: &crate::simrt::RunOutput) -> Option<&'static str> {
    out.log.iter().find_map(|e| match e {
        Ev::Fault { hid, .. } => Some(match case.handlers[*hid].kind {
            HKind::Func => "global_function",
            HKind::Prefix => "prefix_op",
            HKind::Infix => "infix_op",
            HKind::Postfix => "postfix_op",
            HKind::CtxFunc => {
                // by call or by bare name?  bare-name context functions are named b<n> by the generator
                let bare = case.slots[0].funcs.iter().any(|(n, h)| h == hid && n.starts_with('b'));
                if bare {
                    "ctx_function_bare_name"
                } else {
                    "ctx_function_call"
                }
            }
        }),
        _ => None,
    })
}

impl Prop for C15 {
    fn meta(&self) -> PropMeta {
        PropMeta {
            id: "C15",
            level: "fault_enumeration",
            rule: "case = one seeded program (C07 generator: observable context functions by call and bare name, global functions, prefix/infix/postfix \
                   operators) evaluated on a kept context by simulated thread 0, in a third of the cases concurrently with a bystander thread, followed by \
                   a follow-up phase (context accessors, fault-free evaluation on the same context, registrations and evaluations of all four kinds on the \
                   same and on another thread, describe()); for every handler-invocation index k of the program two runs: Err at k and panic at k \
                   (all fault positions enumerated per program; programs and schedules sampled); every eighth case is a fault storm: 20..90 evaluations of \
                   deeply nested programs in one process lifetime with every n-th handler invocation failing (Err or panic), then the follow-up. evaluations = simulated executions; \
                   distinct_nontrivial = distinct (program, k, fault kind) triples in which the fault actually fired",
            assumptions: &[
                "poisoning is real std::sync::Mutex poisoning (the shuttle mutex wraps a std mutex); a lock left held is reported by the scheduler as a deadlock, not by a watchdog",
                "the bystander's operations are independent of the faulted evaluation (own contexts, own names), so the model may order them arbitrarily",
                "value-level results of built-ins come from the engine used as a calculator",
            ],
            fault_kinds: &["handler_err", "handler_panic", "preempt_in_call", "fresh_process"],
            probes: &[
                "fault_in_ctx_function_call",
                "fault_in_ctx_function_bare_name",
                "fault_in_global_function",
                "fault_in_prefix_op",
                "fault_in_infix_op",
                "fault_in_postfix_op",
                "fault_at_last_invocation",
                "bystander_overlaps_fault",
                "fault_storm",
                "fault_inside_reentrant_evaluation",
                "program_deeper_than_64_levels",
            ],
        }
    }

    fn n_indices(&self, tier: Tier) -> u64 {
        12000 * tier.scale()
    }

    fn run_index(&self, idx: u64, seed: u64, tier: Tier, rt: &mut Rt) -> Vec<Violation> {
        let mut r = Prng::derive(seed, "C15.case", idx);
        if idx % 8 == 7 {
            // fault storm: many failing evaluations in one process lifetime
            let case = Arc::new(storm_case(&mut r));
            rt.case_seen(case.fingerprint());
            if let Err(why) = preflight(&case, rt) {
                rt.skip(&format!("preflight: {}", why.split_whitespace().take(3).collect::<Vec<_>>().join(" ")));
                return vec![];
            }
            let out = rt.sim(&case, &SchedSpec::Lowest);
            let nf = out.log.iter().filter(|e| matches!(e, Ev::Fault { .. })).count() as u64;
            let kind = case.fault.as_ref().unwrap().kind;
            rt.fired(if kind == FaultKind::Err { "handler_err" } else { "handler_panic" }, nf);
            rt.fired("fresh_process", 1);
            if nf >= 2 {
                rt.probe("fault_storm");
                rt.nontrivial(case.fingerprint());
            }
            return match judge_vs_model(&case, &out, rt) {
                Judged::Violated(cl, d) => vec![violation("C15", &cl, d, seed, idx, &case, &out)],
                Judged::Skipped(u) => {
                    rt.skip(&format!("unmodelled: {}", u.split(':').next().unwrap_or("")));
                    vec![]
                }
                Judged::Held(_) => vec![],
            };
        }
        let deep = idx % 64 == 62;
        let base = Arc::new(if deep { deep_case(&mut r) } else { gen_case(&mut r, tier == Tier::Thorough) });
        if deep {
            rt.probe("program_deeper_than_64_levels");
        }
        rt.case_seen(base.fingerprint());
        if let Err(why) = preflight(&base, rt) {
            rt.skip(&format!("preflight: {}", why.split_whitespace().take(3).collect::<Vec<_>>().join(" ")));
            return vec![];
        }
        let mut sr = Prng::derive(seed, "C15.sched", idx);
        let specs = schedules(&mut sr, &base);
        // fault-free sub-run (separate from the fault-injecting ones)
        let out0 = rt.sim(&base, &specs[0]);
        rt.fired("fresh_process", 1);
        let m = match judge_vs_model(&base, &out0, rt) {
            Judged::Held(m) => m,
            Judged::Skipped(u) => {
                rt.skip(&format!("unmodelled: {}", u.split(':').next().unwrap_or("")));
                return vec![];
            }
            Judged::Violated(c, d) => return vec![violation("C15", &c, d, seed, idx, &base, &out0)],
        };
        // handler invocations made by the evaluating task during the evaluation itself
        let (eval_op, eval_task) = if base.threads.is_empty() { (OpId::Pre(base.pre.len() - 1), 0usize) } else { (OpId::Thr(0, 0), 1usize) };
        let (n, k0) = {
            let mut n = 0;
            let mut before = 0;
            let mut inside = false;
            let mut seen_eval = false;
            for e in &m.log {
                match e {
                    Ev::Inv { op, .. } if *op == eval_op => {
                        inside = true;
                        seen_eval = true;
                    }
                    Ev::Ret { op, .. } if *op == eval_op => inside = false,
                    Ev::H { task, .. } if *task == eval_task => {
                        if inside {
                            n += 1;
                        } else if !seen_eval {
                            before += 1;
                        }
                    }
                    _ => {}
                }
            }
            (n, before)
        };
        rt.sample(json!({
            "program": match base.threads.first().map(|t| &t[0]).or(base.pre.last()) { Some(Op::Exec{prog,..}) | Some(Op::ExecSole{prog,..}) | Some(Op::ParseExec{prog,..}) => prog.text(), _ => String::new() },
            "context": format!("{:?}", base.slots[0]),
            "bystander": base.threads.get(1).map(|t| t.iter().map(crate::props::c13::show_op).collect::<Vec<_>>()),
            "follow_up": base.post.iter().map(crate::props::c13::show_op).collect::<Vec<_>>(),
            "fault_positions": n,
            "fault_kinds": ["Err", "Panic"],
        }));
        // every invocation index; for the (rare) programs with more than 40 invocations: the first, the last,
        // the middle one and five seeded ones
        let ks: Vec<usize> = if n <= 40 {
            (0..n).collect()
        } else {
            let mut v = vec![0, n / 2, n - 1];
            for _ in 0..5 {
                v.push(sr.usize(n));
            }
            v.sort();
            v.dedup();
            v
        };
        for k in ks {
            for kind in [FaultKind::Err, FaultKind::Panic] {
                let mut c = (*base).clone();
                c.fault = Some(Fault::once(eval_task, k0 + k, kind));
                let c = Arc::new(c);
                for spec in &specs {
                    let out = rt.sim(&c, spec);
                    rt.fired("preempt_in_call", out.rec.preemptions as u64);
                    if out.log.iter().any(|e| matches!(e, Ev::Fault { hid, .. } if c.slots[0].funcs.iter().all(|(_, h)| h != hid) && c.handlers[*hid].kind == HKind::CtxFunc)) {
                        rt.probe("fault_inside_reentrant_evaluation");
                    }
                    if let Some(what) = kind_of_faulted(&c, &out) {
                        rt.fired(if kind == FaultKind::Err { "handler_err" } else { "handler_panic" }, 1);
                        rt.probe(&format!("fault_in_{}", what));
                        rt.nontrivial(c.fingerprint());
                        if k + 1 == n {
                            rt.probe("fault_at_last_invocation");
                        }
                        if c.threads.len() > 1 && out.rec.preemptions > 0 {
                            rt.probe("bystander_overlaps_fault");
                        }
                    }
                    match judge_vs_model(&c, &out, rt) {
                        Judged::Held(_) => {}
                        Judged::Skipped(u) => rt.skip(&format!("unmodelled: {}", u.split(':').next().unwrap_or(""))),
                        Judged::Violated(cl, d) => return vec![violation("C15", &cl, d, seed, idx, &c, &out)],
                    }
                }
            }
        }
        vec![]
    }

    fn judge_one(&self, case: &Arc<Case>, spec: &SchedSpec, rt: &mut Rt) -> Option<(String, String)> {
        let out = rt.sim(case, spec);
        match judge_vs_model(case, &out, rt) {
            Judged::Violated(c, d) => Some((c, d)),
            _ => None,
        }
    }
}
