//! C06 — assignments update the context exactly as written.  One simulated
//! caller, a reference context model, and a failing statement injected at every
//! position (natural errors and failing context functions).

use crate::case::*;
use crate::expr::*;
use crate::gen::*;
use crate::modelcheck::*;
use crate::prng::Prng;
use crate::prop::*;
use crate::sched::SchedSpec;
use serde_json::json;
use std::sync::Arc;

pub struct C06;

const NAMES: [&str; 4] = ["x", "y", "z", "w"];

fn failing_statement(r: &mut Prng, vars: &[(String, Val)]) -> (Expr, &'static str) {
    let a_var = || -> Option<String> { vars.first().map(|(n, _)| n.clone()) };
    match r.below(10) {
        8 => (bin("=", lit_s("abc"), lit_i(2)), "non_name_target"),
        9 => (bin("+=", lit_s("x"), lit_i(2)), "non_name_target"),
        0 => (bin("+", lit_b(true), lit_i(1)), "wrong_operand_type"),
        1 => (bin("=", rf("x"), bin("&&", lit_i(1), lit_b(true))), "wrong_operand_type"),
        2 => (bin("+=", rf("never_bound"), lit_i(1)), "unbound_name"),
        3 => (bin("=", rf("y"), bin("*", rf("never_bound"), lit_i(2))), "unbound_name"),
        4 => (bin("=", lit_i(1), lit_i(2)), "non_name_target"),
        5 => (bin("+=", Expr::List(vec![rf("x")]), lit_i(1)), "non_name_target"),
        6 => (bin("=", bin("+", rf(&a_var().unwrap_or("x".into())), lit_i(1)), lit_i(2)), "non_name_target"),
        _ => (bin("=", rf("z"), tern(lit_i(3), lit_i(1), lit_i(2))), "wrong_operand_type"),
    }
}

fn is_assign(op: &str) -> bool {
    ["=", "+=", "-=", "*=", "/=", "%=", "<<=", ">>=", "&=", "^=", "|="].contains(&op)
}

fn eval_op(prog: Prog, parse_exec: bool) -> Op {
    // half of the parse + exec cases evaluate on a Context that is the ONLY strong owner of its handle
    // (split by the program's statement count: no extra draw, the other samples of a seed stay what they were)
    let n = match &prog {
        Prog::Stmts(xs) => xs.len(),
        _ => 0,
    };
    if parse_exec && n % 2 == 0 {
        Op::ExecSole { prog, slot: 0 }
    } else if parse_exec {
        Op::ParseExec { prog, ctx: CtxRef::Slot(0), times: 1 }
    } else if n % 4 == 3 {
        // thread teardown: the program runs on a spawned thread and once more from the destructor of one of
        // that thread's own thread-locals while the thread ends
        let late = prog.text().len() % 2 == 0;
        Op::OnThreadExit { ops: vec![Op::Exec { prog, ctx: CtxRef::Slot(0) }], late }
    } else {
        Op::Exec { prog, ctx: CtxRef::Slot(0) }
    }
}

fn inspect_ops() -> Vec<Op> {
    let mut v = vec![Op::CtxDump { slot: 0 }];
    for n in NAMES {
        v.push(Op::CtxGetVar { slot: 0, name: n.into() });
    }
    v.push(Op::CtxGet { slot: 0, name: "never_bound".into() });
    v.push(Op::CtxValue { slot: 0, name: "x".into() });
    v
}

struct Base {
    case: Case,
    stmts: Vec<Expr>,
    parse_exec: bool,
}

fn gen_base(r: &mut Prng, big: bool) -> Base {
    let mut case = Case::new("C06");
    case.slots.push(base_ctx(r, &NAMES));
    let knobs = Knobs {
        observable: *r.pick(&[0, 10, 20]),
        max_depth: 1 + r.below(3) as u32,
        max_nodes: 6 + r.usize(6),
        ctx_call: true,
        ctx_bare: true,
        global_fn: false,
        ops: false,
        assignments: true,
        dumpers: true,
    };
    let depth = knobs.max_depth;
    let nst = r.usize(if big { 12 } else { 7 });
    let with_dumper = r.chance(2, 5);
    let mut stmts = {
        let mut g = Gen::new(r, &mut case, knobs, 0);
        g.assign_names = NAMES.iter().map(|s| s.to_string()).collect();
        let mut stmts = vec![];
        for _ in 0..nst {
            g.nodes = 0;
            let s = g.statement(&NAMES, depth);
            stmts.push(s);
        }
        stmts
    };
    if with_dumper {
        // a context function that locks the evaluating context's handle and reports what it sees
        let h = case.add_handler(HandlerSpec::plain(HKind::CtxFunc, Ret::DumpSlot(0)));
        case.slots[0].funcs.push(("seen".into(), h));
        let at = r.usize(stmts.len() + 1);
        let s = if r.chance(1, 2) { call("seen", vec![]) } else { bin("=", rf("w"), call("seen", vec![])) };
        stmts.insert(at, s);
    }
    if r.chance(1, 6) {
        // unusual but legal names: the single underscore, and a dotted name whose head is bound to a map
        // that holds a key spelled like the tail (a dot is an ordinary name character, not a path)
        let name = if r.chance(1, 2) {
            "_"
        } else {
            case.slots[0].vars.push(("o".into(), Val::Map(vec![(Val::s("k"), Val::int(1))])));
            "o.k"
        };
        if r.chance(1, 2) {
            stmts.insert(0, bin("=", rf("w"), rf(name)));
        }
        let at = r.usize(stmts.len() + 1);
        stmts.insert(at, bin("=", rf(name), lit_i(r.range(2, 9))));
        let at2 = at + 1 + r.usize(stmts.len() - at);
        stmts.insert(at2, if r.chance(1, 2) { rf(name) } else { bin("+=", rf(name), lit_i(1)) });
        stmts.push(rf(name));
    }
    Base { case, stmts, parse_exec: r.chance(1, 2) }
}

fn finish(base: &Base, stmts: Vec<Expr>) -> Case {
    let mut c = base.case.clone();
    c.pre.push(eval_op(Prog::Stmts(stmts), base.parse_exec));
    c.post = inspect_ops();
    c
}

fn judge(case: &Arc<Case>, out: &crate::simrt::RunOutput, rt: &mut Rt) -> Option<(String, String)> {
    match judge_vs_model(case, out, rt) {
        Judged::Violated(c, d) => Some((c, d)),
        Judged::Skipped(u) => {
            rt.skip(&format!("unmodelled: {}", u.split(':').next().unwrap_or("")));
            None
        }
        Judged::Held(_) => None,
    }
}

impl Prop for C06 {
    fn meta(&self) -> PropMeta {
        PropMeta {
            id: "C06",
            level: "exploration",
            rule: "case = one seeded program of 0..7 statements over <= 4 variable names (plain `x = e`, the ten compound forms, reads, re-assignment with \
                   another type, nested/chained assignments, expression statements, a context function that dumps the evaluating context through its handle), \
                   initial context of 0..4 bindings plus context functions, evaluated through execute() or parse_expression()+exec() on a kept context by one \
                   simulated caller in a fresh simulated process, then inspected through the context accessors; variants: a failing statement (wrong operand \
                   type, unbound name feeding an operator, non-name target) inserted at every position k, and an Err injected at every context-function \
                   invocation. evaluations = simulated executions; distinct_nontrivial = distinct variants whose program contains at least two assignments",
            assumptions: &[
                "`x op= e` must bind x to what the engine itself yields for `x op e` on a snapshot (engine as calculator); the model owns binding, order, None-yield, program value and cut-off",
                "right-hand sides stay inside the domain where built-ins do not reach C04's numeric edges",
                "non-name targets contain no observable handlers (the order between evaluating and rejecting such a target is not demanded); the target of a PLAIN `=` is never a name bound to a context function (whether `f = e` reads f is not demanded), the target of a compound form may be one (`f op= e` must bind f to f() op e)",
            ],
            fault_kinds: &["natural_err", "handler_err", "fresh_process", "thread_teardown"],
            probes: &[
                "failing_statement_first",
                "failing_statement_last",
                "wrong_operand_type",
                "unbound_name",
                "non_name_target",
                "empty_program",
                "single_statement",
                "dumper_saw_earlier_binding",
                "compound_assignment",
            ],
        }
    }

    fn n_indices(&self, tier: Tier) -> u64 {
        40000 * tier.scale()
    }

    fn run_index(&self, idx: u64, seed: u64, tier: Tier, rt: &mut Rt) -> Vec<Violation> {
        let mut r = Prng::derive(seed, "C06.case", idx);
        let base = gen_base(&mut r, tier == Tier::Thorough);
        let n = base.stmts.len();
        let assignments = base.stmts.iter().filter(|s| matches!(s, Expr::Bin(op, _, _) if is_assign(op))).count();
        let spec = SchedSpec::Lowest;
        let c0 = Arc::new(finish(&base, base.stmts.clone()));
        rt.case_seen(c0.fingerprint());
        if let Err(why) = preflight(&c0, rt) {
            rt.skip(&format!("preflight: {}", why.split_whitespace().take(3).collect::<Vec<_>>().join(" ")));
            return vec![];
        }
        if n == 0 {
            rt.probe("empty_program");
        }
        if n == 1 {
            rt.probe("single_statement");
        }
        if base.stmts.iter().any(|s| matches!(s, Expr::Bin(op, _, _) if is_assign(op) && op != "=")) {
            rt.probe("compound_assignment");
        }
        // fault-free sub-run
        let out = rt.sim(&c0, &spec);
        rt.fired("fresh_process", 1);
        if c0.pre.iter().any(|o| matches!(o, Op::OnThreadExit { .. })) {
            rt.fired("thread_teardown", 1);
        }
        if assignments >= 2 {
            rt.nontrivial(c0.fingerprint());
        }
        if let Some((c, d)) = judge(&c0, &out, rt) {
            return vec![violation("C06", &c, d, seed, idx, &c0, &out)];
        }
        if out.log.iter().any(|e| matches!(e, Ev::H { hid, .. } if matches!(c0.handlers[*hid].ret, Ret::DumpSlot(_)))) {
            if let Some(Res::Dump(d)) = out.result_of(OpId::Post(0)) {
                let init: Vec<&String> = c0.slots[0].vars.iter().map(|(k, _)| k).collect();
                if d.iter().any(|(k, v)| v != "<func>" && !init.contains(&k)) {
                    rt.probe("dumper_saw_earlier_binding");
                }
            }
        }
        let handler_invocations = out.log.iter().filter(|e| matches!(e, Ev::H { .. })).count();
        if idx % 64 == 0 {
            let again = rt.sim(&c0, &spec);
            rt.stats.determinism_rechecks += 1;
            if again.history_hash() != out.history_hash() {
                rt.stats.nondeterminism.push(format!("C06 idx {}", idx));
            }
        }
        rt.sample(json!({
            "program": Prog::Stmts(base.stmts.clone()).text(),
            "api": if base.parse_exec { "parse_expression + exec" } else { "execute" },
            "initial_context": format!("{:?}", c0.slots[0]),
            "result_and_context": out.results().iter().map(|(id, r)| format!("{:?} -> {}", id, r.show())).collect::<Vec<_>>(),
            "failing_statement_positions": n + 1,
            "handler_fault_positions": handler_invocations,
        }));
        // a failing statement at every position
        for k in 0..=n {
            let (bad, what) = failing_statement(&mut r, &c0.slots[0].vars);
            let mut stmts = base.stmts.clone();
            stmts.insert(k, bad);
            let c = Arc::new(finish(&base, stmts));
            let out = rt.sim(&c, &spec);
            rt.fired("natural_err", 1);
            rt.probe(what);
            if k == 0 {
                rt.probe("failing_statement_first");
            }
            if k == n {
                rt.probe("failing_statement_last");
            }
            if assignments >= 2 {
                rt.nontrivial(c.fingerprint());
            }
            if let Some((cl, d)) = judge(&c, &out, rt) {
                return vec![violation("C06", &cl, d, seed, idx, &c, &out)];
            }
        }
        // a failing context function at every invocation
        for k in 0..handler_invocations {
            let mut c = (*c0).clone();
            c.fault = Some(Fault::once(0, k, FaultKind::Err));
            let c = Arc::new(c);
            let out = rt.sim(&c, &spec);
            if out.log.iter().any(|e| matches!(e, Ev::Fault { .. })) {
                rt.fired("handler_err", 1);
            }
            if assignments >= 2 {
                rt.nontrivial(c.fingerprint());
            }
            if let Some((cl, d)) = judge(&c, &out, rt) {
                return vec![violation("C06", &cl, d, seed, idx, &c, &out)];
            }
        }
        vec![]
    }

    fn judge_one(&self, case: &Arc<Case>, spec: &SchedSpec, rt: &mut Rt) -> Option<(String, String)> {
        let out = rt.sim(case, spec);
        judge(case, &out, rt)
    }
}
