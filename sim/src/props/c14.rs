//! C14 — handlers may re-enter the engine without deadlock.  The full matrix
//! handler kind x re-entrant action x program position is enumerated on every
//! run; seeded nesting (re-entrant handlers inside re-entrant evaluations, depth
//! <= 4) is sampled.  A deadlock is a verdict of the scheduler (re-acquisition by
//! the holder / all tasks blocked), never of a watchdog.

use crate::case::*;
use crate::expr::*;
use crate::modelcheck::*;
use crate::prng::Prng;
use crate::prop::*;
use crate::sched::SchedSpec;
use serde_json::json;
use std::sync::Arc;

pub struct C14;

pub const KINDS: [&str; 8] = [
    "global_function",
    "prefix_op",
    "infix_op",
    "postfix_op",
    "ctx_function_call",
    "ctx_function_bare_name",
    // a user-registered SETTER operator: its handler runs between reading and writing the context
    "setter_infix_op",
    // a context function that is the TARGET of a compound assignment (`f += 1` evaluates f first)
    "ctx_function_compound_target",
];
pub const ACTIONS: [&str; 16] = [
    "parse_expression",
    "execute_new_context",
    "register_function",
    "register_prefix_op",
    "register_infix_op",
    "register_postfix_op",
    "lock_own_context_read",
    "lock_own_context_write",
    "execute_on_shared_handle",
    "dump_own_context",
    // the nested evaluation FAILS after it evaluated some operands; the handler swallows the error
    "execute_failing_program",
    // the handler's own result IS the outcome of a nested evaluation: a value ...
    "delegate_to_nested_evaluation",
    // ... or the very Err the nested evaluation produced (an unknown function), which must fail the outer one
    "delegate_to_failing_nested_evaluation",
    // hot reload: the handler REPLACES an operator that the outer program applied before the handler ran
    // and applies again after it, within the same evaluation (`[1 ro 2, <handler>, 1 ro 2]`)
    "replace_prefix_op_in_use",
    "replace_infix_op_in_use",
    "replace_postfix_op_in_use",
];
pub const POSITIONS: [&str; 13] = [
    "root",
    "nested_operand",
    "conditional_then",
    "conditional_else",
    // only with register_function: the handler is an ARGUMENT of the very function it registers / replaces
    "argument_of_function_it_registers",
    "argument_of_function_it_replaces",
    // `t = 10 ; t += <handler> ; t` where the handler rewrites t through the handle / a nested
    // evaluation: the compound form reads its target BEFORE the right-hand side runs
    "rhs_of_compound_assignment_whose_target_it_rewrites",
    // `[<handler>, name]` where the handler writes `name` into the evaluating context: the later
    // element must see the write (elements are evaluated one after the other, not from a snapshot)
    "list_element_before_the_name_it_writes",
    // `pk(<handler>, name, ..)`: the same for call arguments that are all plain names
    "call_argument_before_the_name_it_writes",
    // `t = 7 ; t = <handler>` where the handler rewrites t (to 100) and returns 7: the assignment
    // must still be made (t == 7 afterwards), although the value assigned equals the one t held before
    "rhs_of_plain_assignment_that_restores_the_old_value",
    // `{1 : [hw, hz, y], <handler> : 2}` where the handler writes hw / hz: entries are evaluated pair by
    // pair, so the FIRST value does not see the write made by the SECOND key
    "map_key_after_a_value_that_reads_the_name_it_writes",
    // `<handler> ? 1 : 2`: the handler IS the condition of a conditional
    "conditional_condition",
    // `y = 5 ; <handler> ; r = 1`: the handler is a statement of its own, not the last one
    "non_final_statement",
];

/// kinds that are context functions (any handler kind may lock / evaluate on the evaluating
/// context's handle: a global handler can have captured it)
fn is_ctx_kind(k: usize) -> bool {
    k == 4 || k == 5 || k == 7
}

/// the matrix cells that exist (context-locking actions only for context functions)
pub fn matrix() -> Vec<(usize, usize, usize)> {
    let mut v = vec![];
    for k in 0..KINDS.len() {
        for a in 0..ACTIONS.len() {
            for p in 0..POSITIONS.len() {
                if (p == 4 || p == 5) && (a != 2 || k >= 6) {
                    continue;
                }
                // position 6: only for the two actions that write the evaluating context, and for
                // handler kinds that yield a value
                if p == 6 && (!(a == 7 || a == 8) || k >= 6) {
                    continue;
                }
                if (p == 7 || p == 8 || p == 9 || p == 10) && (!(a == 7 || a == 8) || k >= 6) {
                    continue;
                }
                v.push((k, a, p));
            }
        }
    }
    v
}

fn marker(case: &mut Case, kind: HKind) -> usize {
    case.add_handler(HandlerSpec::plain(kind, Ret::Marker))
}

/// the re-entrant action performed by the handler, and a statement that later observes its effect
fn action(case: &mut Case, a: usize, target: Option<&str>) -> (Vec<Op>, Option<Expr>, Ret) {
    if let Some(t) = target {
        // position 6: the write goes to the compound assignment's own target
        return match a {
            7 => (vec![Op::HandleWrite { slot: 0, name: t.into(), val: Val::int(100) }], None, Ret::Const(Val::int(7))),
            _ => (
                vec![Op::Exec { prog: Prog::Stmts(vec![bin("=", rf(t), lit_i(100)), rf(t)]), ctx: CtxRef::Slot(0) }],
                None,
                Ret::Const(Val::int(7)),
            ),
        };
    }
    let fresh = || CtxRef::Fresh(CtxSpec { vars: vec![("v".into(), Val::int(4))], funcs: vec![] });
    match a {
        0 => (vec![Op::Parse { prog: Prog::one(bin("+", lit_i(1), bin("*", lit_i(2), lit_i(3)))) }], None, Ret::Const(Val::int(7))),
        1 => (
            // (`y` and `x` are bound in the EVALUATING context only: in the handler's fresh context they read None)
            vec![Op::Exec { prog: Prog::one(Expr::List(vec![bin("+", call("min", vec![lit_i(3), lit_i(1)]), rf("v")), rf("y"), rf("x")])), ctx: fresh() }],
            None,
            Ret::Const(Val::int(7)),
        ),
        2 => {
            let h = marker(case, HKind::Func);
            (vec![Op::RegFn { name: "nf".into(), h }], Some(call("nf", vec![lit_i(2)])), Ret::Const(Val::int(7)))
        }
        3 => {
            let h = marker(case, HKind::Prefix);
            (vec![Op::RegPre { name: "npw".into(), h }], None, Ret::Const(Val::int(7)))
        }
        4 => {
            let h = marker(case, HKind::Infix);
            (vec![Op::RegIn { name: "niw".into(), prec: 115, setter: false, right: false, h }], None, Ret::Const(Val::int(7)))
        }
        5 => {
            let h = marker(case, HKind::Postfix);
            (vec![Op::RegPost { name: "nqw".into(), h }], None, Ret::Const(Val::int(7)))
        }
        6 => (vec![Op::HandleRead { slot: 0, name: "y".into() }], None, Ret::Const(Val::int(7))),
        7 => (vec![Op::HandleWrite { slot: 0, name: "hw".into(), val: Val::int(9) }], Some(rf("hw")), Ret::Const(Val::int(7))),
        8 => (
            vec![Op::Exec {
                prog: Prog::Stmts(vec![bin("=", rf("hz"), bin("+", rf("y"), lit_i(1))), rf("hz")]),
                ctx: CtxRef::Slot(0),
            }],
            Some(rf("hz")),
            Ret::Const(Val::int(7)),
        ),
        9 => (vec![], None, Ret::DumpSlot(0)),
        11 => (
            vec![],
            None,
            Ret::Delegate(Prog::one(bin("+", rf("v"), lit_i(3))), CtxSpec { vars: vec![("v".into(), Val::int(4))], funcs: vec![] }),
        ),
        12 => (
            vec![],
            None,
            Ret::Delegate(Prog::Stmts(vec![bin("=", rf("q"), lit_i(1)), call("function_that_exists_nowhere", vec![rf("q")])]), CtxSpec::empty()),
        ),
        13 => {
            let h = marker(case, HKind::Prefix);
            (vec![Op::RegPre { name: "ro".into(), h }], None, Ret::Const(Val::int(7)))
        }
        14 => {
            let h = marker(case, HKind::Infix);
            (vec![Op::RegIn { name: "ro".into(), prec: 115, setter: false, right: false, h }], None, Ret::Const(Val::int(7)))
        }
        15 => {
            let h = marker(case, HKind::Postfix);
            (vec![Op::RegPost { name: "ro".into(), h }], None, Ret::Const(Val::int(7)))
        }
        _ => (
            vec![
                Op::Exec { prog: Prog::one(call("max", vec![lit_i(7), lit_i(8), bin("+", lit_b(true), lit_i(1))])), ctx: fresh() },
                Op::Exec { prog: Prog::one(Expr::List(vec![lit_i(5), rf("v"), bin("*", lit_s("a"), lit_i(2))])), ctx: fresh() },
            ],
            None,
            Ret::Const(Val::int(7)),
        ),
    }
}

/// the node that invokes handler `h` of kind k, plus what has to be registered / bound first
fn invoking_node(case: &mut Case, k: usize, h: usize, name: &str) -> Expr {
    match k {
        0 => {
            case.pre.push(Op::RegFn { name: name.into(), h });
            call(name, vec![lit_i(1)])
        }
        1 => {
            case.pre.push(Op::RegPre { name: name.into(), h });
            un(name, lit_i(1))
        }
        2 => {
            case.pre.push(Op::RegIn { name: name.into(), prec: 115, setter: false, right: false, h });
            bin(name, lit_i(1), lit_i(2))
        }
        3 => {
            case.pre.push(Op::RegPost { name: name.into(), h });
            post(lit_i(1), name)
        }
        4 => {
            case.slots[0].funcs.push((name.into(), h));
            call(name, vec![lit_i(1)])
        }
        5 => {
            case.slots[0].funcs.push((name.into(), h));
            rf(name)
        }
        6 => {
            case.pre.push(Op::RegIn { name: name.into(), prec: 20, setter: true, right: true, h });
            bin(name, rf("sv"), lit_i(5))
        }
        _ => {
            case.slots[0].funcs.push((name.into(), h));
            bin("+=", rf(name), lit_i(1))
        }
    }
}

fn hkind(k: usize) -> HKind {
    match k {
        0 => HKind::Func,
        1 => HKind::Prefix,
        2 | 6 => HKind::Infix,
        3 => HKind::Postfix,
        _ => HKind::CtxFunc,
    }
}

fn at_position(p: usize, node: Expr) -> Expr {
    match p {
        0 => node,
        1 => Expr::List(vec![lit_i(1), node]),
        2 => tern(lit_b(true), node, lit_i(0)),
        3 => tern(lit_b(false), lit_i(0), node),
        7 => Expr::List(vec![node, rf("hw"), rf("hz"), rf("y")]),
        10 => Expr::Map(vec![(lit_i(1), Expr::List(vec![rf("hw"), rf("hz"), rf("y")])), (node, lit_i(2))]),
        11 => tern(node, lit_i(1), lit_i(2)),
        8 => call("pk", vec![node, rf("hw"), rf("hz"), rf("y")]),
        // nf(<node>): the callee is registered (4) or replaced (5) while its argument is evaluated
        _ => call("nf", vec![node]),
    }
}

/// the cells that are run a second time with the evaluating Context as the ONLY strong owner of its
/// handle (`Op::ExecSole`): every cell whose handler is a context function or touches the evaluating
/// context's handle
pub fn sole_matrix() -> Vec<(usize, usize, usize)> {
    matrix().into_iter().filter(|(k, a, _)| is_ctx_kind(*k) || (6..=9).contains(a)).collect()
}

/// a handler that registers a function and then has a WORKER THREAD (spawned and joined inside the handler)
/// evaluate a program that calls it: a registration is in effect, for every thread, when register_* returns -
/// also when it was made inside a running evaluation (handler kinds 0..=5, twice each: worker only / the
/// handler itself first)
pub const WORKER_CASES: usize = 12;
pub fn worker_case(i: usize) -> Case {
    let k = i % 6;
    let mut case = Case::new(&format!("worker-thread-inside-handler:{}:{}", KINDS[k], if i >= 6 { "handler-then-worker" } else { "worker-only" }));
    case.slots.push(CtxSpec { vars: vec![("x".into(), Val::int(1))], funcs: vec![] });
    let hm = marker(&mut case, HKind::Func);
    let use_it = |n: i64| Op::Exec { prog: Prog::one(call("nf", vec![lit_i(n)])), ctx: CtxRef::Fresh(CtxSpec::empty()) };
    let mut actions = vec![Op::RegFn { name: "nf".into(), h: hm }];
    if i >= 6 {
        actions.push(use_it(1));
    }
    actions.push(Op::OnThread { ops: vec![use_it(2), Op::Parse { prog: Prog::one(call("nf", vec![lit_i(4)])) }] });
    let h = case.add_handler(HandlerSpec { kind: hkind(k), ret: Ret::Const(Val::int(7)), actions });
    let node = invoking_node(&mut case, k, h, "hx");
    let stmts = vec![bin("=", rf("y"), lit_i(5)), bin("=", rf("r"), Expr::List(vec![lit_i(1), node])), rf("r")];
    case.pre.push(Op::Exec { prog: Prog::Stmts(stmts), ctx: CtxRef::Slot(0) });
    case.post.push(use_it(3));
    case.post.push(Op::CtxDump { slot: 0 });
    case
}

pub fn matrix_case(k: usize, a: usize, p: usize) -> Case {
    matrix_case_owned(k, a, p, false)
}

pub fn matrix_case_owned(k: usize, a: usize, p: usize, sole: bool) -> Case {
    let mut case = Case::new(&format!("matrix{}:{}:{}:{}", if sole { "-sole-owner" } else { "" }, KINDS[k], ACTIONS[a], POSITIONS[p]));
    case.slots.push(CtxSpec { vars: vec![("x".into(), Val::int(1))], funcs: vec![] });
    // the evaluating context binds its own `min` / `max`: evaluations a handler starts on OTHER contexts
    // must still reach the global functions of those names
    for decoy in ["min", "max"] {
        let d = marker(&mut case, HKind::CtxFunc);
        case.slots[0].funcs.push((decoy.into(), d));
    }
    let (ops, later, ret) = action(&mut case, a, if p == 6 || p == 9 { Some("t") } else { None });
    // a DumpSlot / constant return for the kinds whose value is used arithmetically
    let ret = if k == 7 && matches!(ret, Ret::DumpSlot(_)) { Ret::Const(Val::int(7)) } else { ret };
    // after a delegating handler failed, a later statement must not run
    let later = if a == 12 { Some(bin("=", rf("after_failure"), lit_i(1))) } else { later };
    let h = case.add_handler(HandlerSpec { kind: hkind(k), ret, actions: ops });
    if p == 8 {
        let pk = marker(&mut case, HKind::Func);
        case.pre.push(Op::RegFn { name: "pk".into(), h: pk });
    }
    if p == 5 {
        // the function the handler re-registers already exists (with another handler)
        let old = marker(&mut case, HKind::Func);
        case.pre.push(Op::RegFn { name: "nf".into(), h: old });
    }
    if let Some(word) = match a {
        3 => Some("npw"),
        4 => Some("niw"),
        5 => Some("nqw"),
        _ => None,
    } {
        // the word the handler is going to register as an operator has been used as a plain name before
        // (written as a one-operand chain: the pre-flight, which registers everything first, skips chains)
        case.pre.push(Op::Exec { prog: Prog::Chain(vec![rf(word)], vec![]), ctx: CtxRef::Fresh(CtxSpec::empty()) });
    }
    let node = invoking_node(&mut case, k, h, "hh");
    // the operator the handler replaces is registered before the evaluation and applied around the handler
    let in_use = match a {
        13 => {
            let old = marker(&mut case, HKind::Prefix);
            case.pre.insert(0, Op::RegPre { name: "ro".into(), h: old });
            Some(un("ro", lit_i(2)))
        }
        14 => {
            let old = marker(&mut case, HKind::Infix);
            case.pre.insert(0, Op::RegIn { name: "ro".into(), prec: 115, setter: false, right: false, h: old });
            Some(bin("ro", lit_i(1), lit_i(2)))
        }
        15 => {
            let old = marker(&mut case, HKind::Postfix);
            case.pre.insert(0, Op::RegPost { name: "ro".into(), h: old });
            Some(post(lit_i(2), "ro"))
        }
        _ => None,
    };
    let mut stmts = if let Some(u) = in_use {
        vec![bin("=", rf("y"), lit_i(5)), bin("=", rf("r"), Expr::List(vec![u.clone(), at_position(p, node), u]))]
    } else if p == 12 {
        vec![bin("=", rf("y"), lit_i(5)), node, bin("=", rf("r"), lit_i(1))]
    } else if p == 9 {
        vec![bin("=", rf("y"), lit_i(5)), bin("=", rf("t"), lit_i(7)), bin("=", rf("t"), node), bin("=", rf("r"), rf("t"))]
    } else if p == 6 {
        vec![bin("=", rf("y"), lit_i(5)), bin("=", rf("t"), lit_i(10)), bin("+=", rf("t"), node), bin("=", rf("r"), rf("t"))]
    } else {
        vec![bin("=", rf("y"), lit_i(5)), bin("=", rf("r"), at_position(p, node))]
    };
    if let Some(l) = later.clone() {
        stmts.push(l);
    }
    stmts.push(rf("r"));
    if sole {
        case.pre.push(Op::ExecSole { prog: Prog::Stmts(stmts), slot: 0 });
    } else {
        case.pre.push(Op::Exec { prog: Prog::Stmts(stmts), ctx: CtxRef::Slot(0) });
    }
    // an inner registration is visible to later evaluations (operators: a later *parse* sees them)
    let later_use = match a {
        2 => Some(call("nf", vec![lit_i(3)])),
        3 => Some(un("npw", lit_i(3))),
        4 => Some(bin("niw", lit_i(3), lit_i(4))),
        5 => Some(post(lit_i(3), "nqw")),
        13 => Some(un("ro", lit_i(3))),
        14 => Some(bin("ro", lit_i(3), lit_i(4))),
        15 => Some(post(lit_i(3), "ro")),
        _ => None,
    };
    if let Some(e) = later_use {
        case.post.push(Op::Exec { prog: Prog::one(e), ctx: CtxRef::Fresh(CtxSpec::empty()) });
    }
    case.post.push(Op::CtxDump { slot: 0 });
    case.post.push(Op::Exec { prog: Prog::one(bin("+", rf("x"), lit_i(1))), ctx: CtxRef::Slot(0) });
    case
}

/// a long chain of re-entrant evaluations (40..110 levels), each a tiny expression `1 + next(..)`:
/// whatever a handler-started evaluation inherits from its caller must not add up
fn deep_chain_case(r: &mut Prng) -> Case {
    let mut case = Case::new("deep-chain");
    case.slots.push(CtxSpec { vars: vec![("x".into(), Val::int(1))], funcs: vec![] });
    let depth = 40 + r.usize(70);
    let kind = r.usize(3); // global function / prefix operator / bare-name context function
    let mut inner: Option<(Expr, Vec<(String, usize)>)> = None;
    for level in (0..depth).rev() {
        let name = format!("d{}", level);
        let mut actions = vec![];
        if let Some((prog, funcs)) = inner.take() {
            actions.push(Op::Exec { prog: Prog::one(prog), ctx: CtxRef::Fresh(CtxSpec { vars: vec![], funcs }) });
        }
        let k = match kind {
            0 => HKind::Func,
            1 => HKind::Prefix,
            _ => HKind::CtxFunc,
        };
        let h = case.add_handler(HandlerSpec { kind: k, ret: Ret::Const(Val::int(level as i64)), actions });
        let mut funcs = vec![];
        let node = match kind {
            0 => {
                case.pre.push(Op::RegFn { name: name.clone(), h });
                call(&name, vec![lit_i(1)])
            }
            1 => {
                case.pre.push(Op::RegPre { name: name.clone(), h });
                un(&name, lit_i(1))
            }
            _ => {
                funcs.push((name.clone(), h));
                rf(&name)
            }
        };
        inner = Some((bin("+", lit_i(1), node), funcs));
    }
    let (prog, funcs) = inner.unwrap();
    case.slots[0].funcs.extend(funcs);
    case.pre.push(Op::Exec { prog: Prog::one(prog), ctx: CtxRef::Slot(0) });
    case.post.push(Op::Exec { prog: Prog::one(bin("+", rf("x"), lit_i(1))), ctx: CtxRef::Slot(0) });
    case
}

/// seeded nesting: a chain of re-entrant handlers, each evaluating a program
/// that invokes the next one
fn nested_case(r: &mut Prng, big: bool) -> Case {
    let mut case = Case::new("nested");
    case.slots.push(CtxSpec { vars: vec![("x".into(), Val::int(1))], funcs: vec![] });
    let depth = 2 + r.usize(if big { 6 } else { 3 });
    // build from the innermost handler outwards
    let mut inner_prog: Option<(Expr, Vec<(String, usize)>)> = None; // program + ctx functions it needs
    // global function names called at deeper levels that the OUTERMOST context binds as well (never
    // reached from there: handler-started evaluations on other contexts must not inherit them)
    let mut decoys: Vec<String> = vec![];
    for level in (0..depth).rev() {
        let k = r.usize(6);
        // context functions of different levels live in different contexts: they may share one identifier
        let name = if k >= 4 && r.chance(1, 2) { "total".to_string() } else { format!("n{}", level) };
        let mut actions = vec![];
        // besides evaluating the next level, maybe one more re-entrant action
        if let Some((prog, funcs)) = inner_prog.take() {
            let ctx = CtxSpec { vars: vec![("v".into(), Val::int(level as i64))], funcs };
            // every other level: the handler evaluates on a context the host built BEFORE the outermost
            // evaluation started (a kept slot) instead of one it builds inside the handler
            let ctx = if level % 2 == 0 {
                case.slots.push(ctx);
                CtxRef::Slot(case.slots.len() - 1)
            } else {
                CtxRef::Fresh(ctx)
            };
            if r.chance(1, 2) {
                actions.push(Op::Exec { prog: Prog::one(prog), ctx });
            } else {
                actions.push(Op::ParseExec { prog: Prog::one(prog), ctx, times: 1 + r.below(2) as u8 });
            }
        }
        match r.below(6) {
            0 => actions.push(Op::Parse { prog: Prog::one(bin("<", lit_i(1), lit_i(2))) }),
            1 => {
                let h = marker(&mut case, HKind::Func);
                actions.push(Op::RegFn { name: format!("rf{}", level), h });
            }
            2 => {
                let h = marker(&mut case, HKind::Prefix);
                actions.push(Op::RegPre { name: format!("rp{}", level), h });
            }
            3 if level == 0 && is_ctx_kind(k) => actions.push(Op::HandleRead { slot: 0, name: "x".into() }),
            4 if level == 0 && is_ctx_kind(k) => actions.push(Op::HandleWrite { slot: 0, name: "hw".into(), val: Val::int(3) }),
            _ => {}
        }
        if r.chance(1, 2) {
            actions.reverse();
        }
        let h = case.add_handler(HandlerSpec { kind: hkind(k), ret: Ret::Const(Val::int(10 + level as i64)), actions });
        // how the level above reaches this handler
        let mut funcs = vec![];
        let node = match k {
            0 => {
                case.pre.push(Op::RegFn { name: name.clone(), h });
                if level >= 1 && r.chance(1, 2) {
                    decoys.push(name.clone());
                }
                call(&name, vec![rf("v")])
            }
            1 => {
                case.pre.push(Op::RegPre { name: name.clone(), h });
                un(&name, lit_i(1))
            }
            2 => {
                case.pre.push(Op::RegIn { name: name.clone(), prec: 1 + r.range(0, 300) as i32, setter: false, right: r.chance(1, 2), h });
                bin(&name, lit_i(1), rf("v"))
            }
            3 => {
                case.pre.push(Op::RegPost { name: name.clone(), h });
                post(lit_i(1), &name)
            }
            4 => {
                funcs.push((name.clone(), h));
                call(&name, vec![lit_i(1)])
            }
            _ => {
                funcs.push((name.clone(), h));
                rf(&name)
            }
        };
        let p = r.usize(POSITIONS.len());
        inner_prog = Some((bin("+", at_position(p, node), lit_i(1)), funcs));
    }
    let (prog, funcs) = inner_prog.unwrap();
    case.slots[0].funcs.extend(funcs);
    for d in decoys {
        let h = marker(&mut case, HKind::CtxFunc);
        case.slots[0].funcs.push((d, h));
    }
    case.slots[0].vars.push(("v".into(), Val::int(100)));
    // a quarter of the chains: the outermost evaluation runs on a Context that is the only strong owner of
    // its handle (decided from values already drawn, so that the other samples of a seed stay what they were)
    let stmts = Prog::Stmts(vec![bin("=", rf("r"), prog), rf("r")]);
    let eval = if (depth + case.handlers.len()) % 4 == 0 { Op::ExecSole { prog: stmts, slot: 0 } } else { Op::Exec { prog: stmts, ctx: CtxRef::Slot(0) } };
    if r.chance(1, 3) {
        // swarm flag: a bystander thread registers and evaluates (independent names) while the
        // re-entrant evaluation runs
        case.tag = "nested+bystander".into();
        let hf = marker(&mut case, HKind::Func);
        let hp = marker(&mut case, HKind::Prefix);
        let hi = marker(&mut case, HKind::Infix);
        let hq = marker(&mut case, HKind::Postfix);
        let mut by = vec![
            Op::RegFn { name: "bz_f".into(), h: hf },
            Op::RegPre { name: "bz_p".into(), h: hp },
            Op::RegIn { name: "bz_i".into(), prec: 115, setter: false, right: false, h: hi },
            Op::RegPost { name: "bz_q".into(), h: hq },
            Op::Exec { prog: Prog::one(bin("+", lit_i(1), lit_i(2))), ctx: CtxRef::Fresh(CtxSpec::empty()) },
        ];
        r.shuffle(&mut by);
        by.truncate(1 + r.usize(5));
        case.threads.push(vec![eval]);
        case.threads.push(by);
    } else {
        case.pre.push(eval);
    }
    case.post.push(Op::CtxDump { slot: 0 });
    case.post.push(Op::Exec { prog: Prog::one(bin("+", rf("x"), lit_i(1))), ctx: CtxRef::Slot(0) });
    case
}

fn judge(case: &Arc<Case>, out: &crate::simrt::RunOutput, rt: &mut Rt) -> Option<(String, String)> {
    match judge_vs_model(case, out, rt) {
        Judged::Violated(c, d) => Some((c, d)),
        Judged::Skipped(u) => {
            rt.skip(&format!("unmodelled: {}", u.split(':').next().unwrap_or("")));
            None
        }
        Judged::Held(_) => None,
    }
}

impl Prop for C14 {
    fn meta(&self) -> PropMeta {
        PropMeta {
            id: "C14",
            level: "fault_enumeration",
            rule: "exhaustive part: every existing cell of handler kind {global function, prefix, infix, postfix, context function by call, context function by \
                   bare name, user-registered SETTER operator, context function as the target of a compound assignment} x re-entrant action {parse_expression, execute on a new context, register_function/prefix/infix/postfix, and for context \
                   functions: lock the evaluating context's handle and read / write it / evaluate on a Context sharing it / dump it} x program position {root, \
                   nested operand, then-branch, else-branch, and for register_function: as an argument of the very function it registers / replaces} = 840 cases, all run on every invocation; sampled part: seeded chains of 2..4 re-entrant \
                   handlers each evaluating a program that invokes the next, in a third of them with a bystander thread that registers and evaluates concurrently \
                   (seeded schedules). Fresh simulated process per case. evaluations = simulated \
                   executions; distinct_nontrivial = distinct cases in which at least one re-entrant action was actually performed inside a handler",
            assumptions: &[
                "re-acquisition of a lock by its holder and all-tasks-blocked are reported by the simulator's mutex/scheduler at the exact lock operation (a real std mutex would hang)",
                "the handler's return value is a constant, so the outer result must equal that of the same program with plain handlers; inner results come from the reference model",
            ],
            fault_kinds: &["reenter_parse", "reenter_execute", "reenter_register", "reenter_ctx_lock", "preempt_in_call", "fresh_process"],
            probes: &["matrix_cells_run", "nesting_depth_3_or_more", "inner_registration_used_later", "bare_name_locks_own_context", "bystander_registers_during_reentrant_evaluation", "deep_reentrant_chain", "sole_owner_cells_run", "worker_thread_inside_handler"],
        }
    }

    fn n_indices(&self, tier: Tier) -> u64 {
(matrix().len() + sole_matrix().len() + WORKER_CASES) as u64 + 20000 * tier.scale()
    }

    fn run_index(&self, idx: u64, seed: u64, tier: Tier, rt: &mut Rt) -> Vec<Violation> {
        let cells = matrix();
        let case = if (idx as usize) < cells.len() {
            let (k, a, p) = cells[idx as usize];
            rt.probe("matrix_cells_run");
            if k == 5 && (6..=9).contains(&a) {
                rt.probe("bare_name_locks_own_context");
            }
            if (2..=5).contains(&a) {
                rt.probe("inner_registration_used_later");
            }
            matrix_case(k, a, p)
        } else if (idx as usize) < cells.len() + sole_matrix().len() {
            let (k, a, p) = sole_matrix()[idx as usize - cells.len()];
            rt.probe("matrix_cells_run");
            rt.probe("sole_owner_cells_run");
            matrix_case_owned(k, a, p, true)
        } else if (idx as usize) < cells.len() + sole_matrix().len() + WORKER_CASES {
            rt.probe("worker_thread_inside_handler");
            worker_case(idx as usize - cells.len() - sole_matrix().len())
        } else {
            let mut r = Prng::derive(seed, "C14.nested", idx);
            if idx % 64 == 63 {
                rt.probe("deep_reentrant_chain");
                deep_chain_case(&mut r)
            } else {
                nested_case(&mut r, tier == Tier::Thorough)
            }
        };
        let case = Arc::new(case);
        rt.case_seen(case.fingerprint());
        if let Err(why) = preflight(&case, rt) {
            rt.skip(&format!("preflight: {}", why.split_whitespace().take(3).collect::<Vec<_>>().join(" ")));
            return vec![];
        }
        let out = rt.sim(&case, &SchedSpec::Lowest);
        rt.fired("fresh_process", 1);
        if case.threads.len() > 1 {
            rt.probe("bystander_registers_during_reentrant_evaluation");
            let mut sr = Prng::derive(seed, "C14.sched", idx);
            for j in 1..6 {
                let spec = crate::props::c13::schedule_for(&mut sr, j, out.rec.decisions);
                let o = rt.sim(&case, &spec);
                rt.fired("preempt_in_call", o.rec.preemptions as u64);
                if let Some((c, d)) = judge(&case, &o, rt) {
                    return vec![violation("C14", &c, d, seed, idx, &case, &o)];
                }
            }
        }
        let mut acts = 0;
        let mut max_depth = 0usize;
        for e in &out.log {
            match e {
                Ev::H { hid, .. } => {
                    if !case.handlers[*hid].actions.is_empty() {
                        max_depth += 1;
                    }
                }
                Ev::Act { hid, idx, .. } => {
                    acts += 1;
                    let kind = match &case.handlers[*hid].actions[*idx] {
                        Op::Parse { .. } => "reenter_parse",
                        Op::Exec { .. } | Op::ParseExec { .. } | Op::ExecSole { .. } => "reenter_execute",
                        Op::HandleRead { .. } | Op::HandleWrite { .. } => "reenter_ctx_lock",
                        _ => "reenter_register",
                    };
                    rt.fired(kind, 1);
                    if matches!(&case.handlers[*hid].actions[*idx], Op::Exec { ctx: CtxRef::Slot(_), .. }) {
                        rt.fired("reenter_ctx_lock", 1);
                    }
                }
                _ => {}
            }
        }
        if matches!(case.handlers.iter().map(|h| &h.ret).find(|r| matches!(r, Ret::DumpSlot(_))), Some(_)) {
            rt.fired("reenter_ctx_lock", 1);
            acts += 1;
        }
        if acts > 0 {
            rt.nontrivial(case.fingerprint());
        }
        if max_depth >= 3 {
            rt.probe("nesting_depth_3_or_more");
        }
        if idx % 8 == 0 {
            rt.sample(json!({
                "case": case.tag,
                "context": format!("{:?}", case.slots[0]),
                "operations": case.pre.iter().chain(case.post.iter()).map(crate::props::c13::show_op).collect::<Vec<_>>(),
                "handlers": case.handlers.iter().enumerate().filter(|(_, h)| !h.actions.is_empty() || matches!(h.ret, Ret::DumpSlot(_)))
                    .map(|(i, h)| format!("h{} {:?} returns {:?} after [{}]", i, h.kind, h.ret, h.actions.iter().map(crate::props::c13::show_op).collect::<Vec<_>>().join("; "))).collect::<Vec<_>>(),
                "history": out.log.iter().map(show_ev).collect::<Vec<_>>(),
            }));
        }
        if idx % 32 == 0 {
            let again = rt.sim(&case, &SchedSpec::Lowest);
            rt.stats.determinism_rechecks += 1;
            if again.history_hash() != out.history_hash() {
                rt.stats.nondeterminism.push(format!("C14 idx {}", idx));
            }
        }
        match judge(&case, &out, rt) {
            Some((c, d)) => vec![violation("C14", &c, d, seed, idx, &case, &out)],
            None => vec![],
        }
    }

    fn judge_one(&self, case: &Arc<Case>, spec: &SchedSpec, rt: &mut Rt) -> Option<(String, String)> {
        let out = rt.sim(case, spec);
        judge(case, &out, rt)
    }
}
