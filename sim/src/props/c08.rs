//! C08 — names and operators dispatch to the handler and binding last
//! registered.  A history of registrations, evaluations and operator-chain
//! parses executed by one caller in a fresh simulated process (so "before the
//! engine was first used" is real), against a reference registry and a
//! textbook precedence climber.

use crate::case::*;
use crate::expr::*;
use crate::model::{InfixEntry, Impl, MReg};
use crate::modelcheck::*;
use crate::prng::Prng;
use crate::prop::*;
use crate::sched::SchedSpec;
use serde_json::json;
use std::sync::Arc;

pub struct C08;

// symbolic names (every prefix is an operator, so they tokenize by maximal munch) and names that
// start outside the tokenizer's operator characters but are not identifiers either
const SYM_INFIX: &[&str] = &["**", "<<<", "===", "&&&", "|||", ">>>", "%%", "~=", "is-a", "@@", "<~"];
const SYM_PREFIX: &[&str] = &["+++", "!!", "~", "@@"];
const SYM_POSTFIX: &[&str] = &["---", "+++", "@!", "~~"];
const BUILTIN_LEVELS: &[i32] = &[20, 40, 50, 60, 70, 80, 90, 100, 110, 120, 200];

struct G<'a> {
    r: &'a mut Prng,
    /// operations to emit before the next registration (a word used as a plain name before it becomes an operator)
    before: Vec<Op>,
    case: Case,
    reg: MReg,
    n: usize,
    adjacent_pairs: u64,
    chains: u64,
    overrides: u64,
    shadows: u64,
}

impl<'a> G<'a> {
    fn marker(&mut self, k: HKind) -> usize {
        self.case.add_handler(HandlerSpec::plain(k, Ret::Marker))
    }

    /// a fresh word that will be registered as an operator: in a third of the cases it is first
    /// used as a plain (unbound) name, while it is not an operator yet
    fn fresh_word(&mut self, prefix: &str) -> String {
        self.n += 1;
        // one word in six is longer than every word operator of the built-in tables
        let name = if self.r.chance(1, 6) { format!("{}{}_a_rather_long_operator_name", prefix, self.n) } else { format!("{}{}", prefix, self.n) };
        if self.r.chance(1, 3) {
            self.before.push(Op::Exec {
                prog: Prog::Stmts(vec![lit_i(self.r.range(1, 9)), rf(&name)]),
                ctx: CtxRef::Fresh(CtxSpec::empty()),
            });
        }
        name
    }

    fn level_assoc(&self, prec: i32, except: &str) -> Option<bool> {
        self.reg.infix.iter().find(|(n, e)| e.prec == prec && n.as_str() != except && !e.setter).map(|(_, e)| e.right)
    }

    fn pick_prec(&mut self) -> i32 {
        let mut existing: Vec<i32> = self.reg.infix.values().map(|e| e.prec).collect();
        existing.extend(BUILTIN_LEVELS);
        existing.sort();
        existing.dedup();
        match self.r.below(10) {
            0..=2 => *self.r.pick(&existing),
            3..=6 => {
                let p = *self.r.pick(&existing) + *self.r.pick(&[-1, 1, -2, 2]);
                p.clamp(1, 1_000_000_000)
            }
            7 => *self.r.pick(&[1, 2, 999_999_999, 1_000_000_000]),
            _ => self.r.range(1, 1_000_000_000) as i32,
        }
    }

    fn reg_infix(&mut self) -> Op {
        let name = match self.r.below(10) {
            0..=3 => self.fresh_word("iw"),
            4..=5 => self.r.pick(SYM_INFIX).to_string(),
            6..=7 => {
                // re-register something that exists (possibly a built-in): another handler and/or precedence
                let calc: Vec<String> = self.reg.infix.iter().filter(|(n, e)| !e.setter && !["in", "beginWith", "endWith"].contains(&n.as_str())).map(|(n, _)| n.clone()).collect();
                let n = self.r.pick(&calc).clone();
                if crate::model::BUILTIN_INFIX.iter().any(|(b, ..)| *b == n) {
                    self.overrides += 1;
                }
                n
            }
            _ => (*self.r.pick(&["+", "*", "-", "<", "&&"])).to_string(),
        };
        let keep = self.reg.infix.get(&name).map(|e| (e.prec, e.right));
        // the SAME handler (one Arc, cloned) registered again under the same name with another
        // precedence / associativity: the new configuration must win although the handler is unchanged
        let same_handler = match self.reg.infix.get(&name) {
            Some(InfixEntry { imp: Impl::H(h0), setter: false, .. }) if self.r.chance(1, 3) => Some(*h0),
            _ => None,
        };
        let (prec, right) = match keep {
            Some((p, r)) if same_handler.is_none() && self.r.chance(1, 3) => (p, r),
            _ => {
                let p = self.pick_prec();
                let right = self.level_assoc(p, &name).unwrap_or_else(|| p == 20 || self.r.chance(1, 2));
                (p, right)
            }
        };
        // never share a level with the assignment operators (their associativity is RIGHT and
        // they are SETTERs: mixed levels are outside what the property defines)
        let (prec, right) = if prec == 20 { (21, self.level_assoc(21, &name).unwrap_or(right)) } else { (prec, right) };
        let h = match same_handler {
            Some(h0) => h0,
            None => self.marker(HKind::Infix),
        };
        self.reg.infix.insert(name.clone(), InfixEntry { prec, setter: false, right, imp: Impl::H(h) });
        Op::RegIn { name, prec, setter: false, right, h }
    }

    /// override of an assignment operator (type SETTER kept): the registered handler must be used
    /// by every later assignment, also the plain `=`
    fn reg_setter(&mut self) -> Op {
        let name = (*self.r.pick(&["=", "=", "+=", "-=", "|="])).to_string();
        let h = self.case.add_handler(HandlerSpec::plain(HKind::Infix, if self.r.chance(1, 2) { Ret::Arg(1) } else { Ret::Marker }));
        self.overrides += 1;
        self.reg.infix.insert(name.clone(), InfixEntry { prec: 20, setter: true, right: true, imp: Impl::H(h) });
        Op::RegIn { name, prec: 20, setter: true, right: true, h }
    }

    fn reg_other(&mut self) -> Op {
        if self.r.chance(1, 10) {
            return self.reg_setter();
        }
        match self.r.below(9) {
            0..=2 => {
                let name = match self.r.below(4) {
                    0 => (*self.r.pick(&["min", "max", "sum"])).to_string(),
                    1 if !self.reg.funcs.is_empty() => self.reg.funcs.keys().nth(self.r.usize(self.reg.funcs.len())).unwrap().clone(),
                    2 if self.r.chance(1, 2) => (*self.r.pick(&["$fee", "@rate", "_x.y", "#n"])).to_string(),
                    // names that differ from a word operator of the built-in tables only in capitalisation
                    3 if self.r.chance(1, 3) => (*self.r.pick(&["In", "and", "Or", "Not", "EndWith", "Beginwith"])).to_string(),
                    _ => {
                        self.n += 1;
                        format!("f{}", self.n)
                    }
                };
                if matches!(self.reg.funcs.get(&name), Some(Impl::Builtin)) {
                    self.overrides += 1;
                }
                if !self.reg.funcs.contains_key(&name) && self.r.chance(1, 3) {
                    // the name is called (and fails: registered nowhere) BEFORE it is registered
                    self.before.push(Op::Exec { prog: Prog::one(call(&name, vec![lit_i(1)])), ctx: CtxRef::Fresh(CtxSpec::empty()) });
                }
                let h = self.marker(HKind::Func);
                self.reg.funcs.insert(name.clone(), Impl::H(h));
                Op::RegFn { name, h }
            }
            3..=5 => {
                let name = match self.r.below(4) {
                    0 => (*self.r.pick(&["-", "!", "not"])).to_string(),
                    1 => self.r.pick(SYM_PREFIX).to_string(),
                    _ => self.fresh_word("pw"),
                };
                if matches!(self.reg.prefix.get(&name), Some(Impl::Builtin)) {
                    self.overrides += 1;
                }
                let h = self.marker(HKind::Prefix);
                self.reg.prefix.insert(name.clone(), Impl::H(h));
                Op::RegPre { name, h }
            }
            _ => {
                let name = match self.r.below(4) {
                    0 => (*self.r.pick(&["++", "--"])).to_string(),
                    1 => self.r.pick(SYM_POSTFIX).to_string(),
                    _ => self.fresh_word("qw"),
                };
                if matches!(self.reg.postfix.get(&name), Some(Impl::Builtin)) {
                    self.overrides += 1;
                }
                let h = self.marker(HKind::Postfix);
                self.reg.postfix.insert(name.clone(), Impl::H(h));
                Op::RegPost { name, h }
            }
        }
    }

    fn operand(&mut self) -> Expr {
        if self.r.chance(1, 8) {
            // written without parentheses in a chain: `- 2 op 3` is (- 2) op 3 whatever op's precedence is
            return un("-", lit_i(self.r.range(1, 9)));
        }
        if self.r.chance(1, 3) {
            rf(*self.r.pick(&["a", "b", "c"]))
        } else {
            lit_i(self.r.range(1, 9))
        }
    }

    fn chain(&mut self, exec: bool) -> Prog {
        let n = 2 + self.r.usize(4);
        // candidates: registered (marker) operators, plus built-ins (all CALC ones when only parsing)
        let mut cands: Vec<(String, i32)> = vec![];
        for (name, e) in &self.reg.infix {
            if e.setter {
                continue;
            }
            let builtin = e.imp == Impl::Builtin;
            if builtin && exec && !["+", "-", "*"].contains(&name.as_str()) {
                continue;
            }
            cands.push((name.clone(), e.prec));
        }
        let mut ops = vec![];
        for i in 0..n {
            // bias towards operators adjacent in precedence to the previous one
            let pick = if i > 0 && self.r.chance(1, 2) {
                let prev: i32 = self.reg.infix[&ops[i - 1]].prec;
                let near: Vec<&(String, i32)> = cands.iter().filter(|(_, p)| (p - prev).abs() <= 2).collect();
                if near.is_empty() {
                    self.r.pick(&cands).0.clone()
                } else {
                    near[self.r.usize(near.len())].0.clone()
                }
            } else {
                // registered operators twice as likely as built-ins
                let regd: Vec<&(String, i32)> = cands.iter().filter(|(n, _)| self.reg.infix[n].imp != Impl::Builtin).collect();
                if !regd.is_empty() && self.r.chance(2, 3) {
                    regd[self.r.usize(regd.len())].0.clone()
                } else {
                    self.r.pick(&cands).0.clone()
                }
            };
            ops.push(pick);
        }
        for w in ops.windows(2) {
            let (p, q) = (self.reg.infix[&w[0]].prec, self.reg.infix[&w[1]].prec);
            if (p - q).abs() == 1 {
                self.adjacent_pairs += 1;
            }
        }
        self.chains += 1;
        let operands = (0..=n).map(|_| self.operand()).collect();
        Prog::Chain(operands, ops)
    }

    fn evaluation(&mut self) -> Op {
        let vars = CtxSpec {
            vars: vec![("a".into(), Val::int(11)), ("b".into(), Val::int(12)), ("c".into(), Val::int(13)), ("x".into(), Val::int(1))],
            funcs: vec![],
        };
        if self.reg.infix.iter().any(|(_, e)| e.setter && e.imp != Impl::Builtin) && self.r.chance(1, 3) {
            // assignments through (possibly overridden) assignment operators
            let op = (*self.r.pick(&["=", "+=", "-=", "|="])).to_string();
            let stmts = vec![bin("=", rf("x"), lit_i(self.r.range(1, 9))), bin(&op, rf("x"), lit_i(self.r.range(1, 9))), rf("x")];
            return Op::Exec { prog: Prog::Stmts(stmts), ctx: CtxRef::Fresh(vars) };
        }
        match self.r.below(10) {
            0..=1 => {
                // call: context function first, then the global registry, else an error
                let mut ctx = vars.clone();
                let name = match self.r.below(4) {
                    0 => "nobody".to_string(),
                    _ => self.reg.funcs.keys().nth(self.r.usize(self.reg.funcs.len())).unwrap().clone(),
                };
                match self.r.below(5) {
                    0 => {
                        let h = self.marker(HKind::CtxFunc);
                        ctx.funcs.push((name.clone(), h));
                        self.shadows += 1;
                    }
                    4 => {
                        // the host bound the name more than once (a variable first, or another function
                        // first): the binding made LAST is the one the context holds
                        if self.r.chance(1, 2) {
                            ctx.vars.push((name.clone(), Val::int(5)));
                        } else {
                            let h0 = self.marker(HKind::CtxFunc);
                            ctx.funcs.push((name.clone(), h0));
                        }
                        let h = self.marker(HKind::CtxFunc);
                        ctx.funcs.push((name.clone(), h));
                        self.shadows += 1;
                    }
                    1 => {
                        // bound as a *variable* (scalar, list or map): the call must still reach the global function
                        let v = match self.r.below(3) {
                            0 => Val::int(5),
                            1 => Val::List(vec![Val::int(10), Val::int(20), Val::int(30)]),
                            _ => Val::Map(vec![(Val::int(1), Val::s("one")), (Val::s("k"), Val::int(2))]),
                        };
                        ctx.vars.push((name.clone(), v));
                        self.shadows += 1;
                    }
                    _ => {}
                }
                if let Some(dot) = name.rfind('.') {
                    // a dot is an ordinary name character: `_x.y(..)` is ONE function name even when `_x` is a variable
                    if dot > 0 && self.r.chance(1, 2) {
                        ctx.vars.push((name[..dot].to_string(), Val::int(5)));
                    }
                }
                let args = match self.r.below(3) {
                    0 => vec![lit_i(self.r.range(1, 2))],
                    1 => vec![lit_i(self.r.range(1, 9)), lit_i(self.r.range(1, 9))],
                    _ if ["min", "max", "sum", "mul"].contains(&name.as_str()) => vec![lit_i(3), lit_i(1)],
                    _ => vec![],
                };
                let e = call(&name, args);
                // sometimes next to a call of a function that exists nowhere, in a branch that is not selected
                let e = if self.r.chance(1, 5) { tern(lit_b(true), e, call("never_registered", vec![lit_i(2)])) } else { e };
                Op::Exec { prog: Prog::one(e), ctx: CtxRef::Fresh(ctx) }
            }
            2 => {
                let name = self.reg.prefix.keys().nth(self.r.usize(self.reg.prefix.len())).unwrap().clone();
                let arg = if ["!", "not"].contains(&name.as_str()) {
                    lit_b(true)
                } else if ["AND", "OR"].contains(&name.as_str()) {
                    Expr::List(vec![lit_b(true)])
                } else {
                    lit_i(self.r.range(1, 9))
                };
                Op::Exec { prog: Prog::one(un(&name, arg)), ctx: CtxRef::Fresh(vars) }
            }
            3 => {
                let name = self.reg.postfix.keys().nth(self.r.usize(self.reg.postfix.len())).unwrap().clone();
                Op::Exec { prog: Prog::one(post(lit_i(self.r.range(1, 9)), &name)), ctx: CtxRef::Fresh(vars) }
            }
            4..=6 => Op::Parse { prog: self.chain(false) },
            _ => {
                let prog = self.chain(true);
                if self.r.chance(1, 3) {
                    Op::ParseExec { prog, ctx: CtxRef::Fresh(vars), times: 1 }
                } else {
                    Op::Exec { prog, ctx: CtxRef::Fresh(vars) }
                }
            }
        }
    }
}

pub fn gen_case(r: &mut Prng, big: bool) -> (Case, [u64; 4]) {
    let mut g = G { r, before: vec![], case: Case::new("C08"), reg: MReg::builtin(), n: 0, adjacent_pairs: 0, chains: 0, overrides: 0, shadows: 0 };
    // ASTs parsed once, before every registration of the history, and executed later: a pre-parsed
    // AST must dispatch to whatever is registered when it is EXECUTED
    if g.r.chance(1, 2) {
        g.case.shared = vec![
            Prog::one(call("f1", vec![lit_i(2), call("min", vec![lit_i(3), lit_i(1)])])),
            Prog::one(bin("+", un("-", lit_i(5)), post(lit_i(1), "++"))),
            Prog::one(call("max", vec![lit_i(1), bin("*", lit_i(2), lit_i(3))])),
        ];
    }
    let nops = 2 + g.r.usize(if big { 22 } else { 11 });
    let first_is_reg = g.r.chance(1, 2);
    for i in 0..nops {
        let want_reg = if i == 0 { first_is_reg } else { g.r.chance(9, 20) };
        let op = if want_reg {
            if g.r.chance(3, 5) {
                g.reg_infix()
            } else {
                g.reg_other()
            }
        } else if !g.case.shared.is_empty() && g.r.chance(1, 4) {
            Op::ExecShared { ast: g.r.usize(g.case.shared.len()), ctx: CtxRef::Fresh(CtxSpec::empty()) }
        } else {
            g.evaluation()
        };
        let before = std::mem::take(&mut g.before);
        g.case.pre.extend(before);
        // sometimes the operation is made by ANOTHER thread (spawned and joined): what one thread
        // registered must be what every other thread uses afterwards
        // (every other one of those once more while that thread ENDS, from the destructor of one of its thread-locals)
        let n = g.case.pre.len();
        let op = if g.r.chance(1, 8) {
            if n % 2 == 0 { Op::OnThreadExit { ops: vec![op], late: n % 4 == 0 } } else { Op::OnThread { ops: vec![op] } }
        } else {
            op
        };
        g.case.pre.push(op);
        if want_reg && !g.case.shared.is_empty() && g.r.chance(1, 3) {
            // a kept AST evaluated through exec() as the very next engine call after a registration
            // (no parse, execute or register_* in between that could refresh anything)
            g.case.pre.push(Op::ExecShared { ast: g.r.usize(g.case.shared.len()), ctx: CtxRef::Fresh(CtxSpec::empty()) });
        }
    }
    // the history always ends with a chain over the final table
    let last = g.chain(false);
    g.case.pre.push(Op::Parse { prog: last });
    // hot reload (a third of the histories, decided without a draw): the host re-installs a definition it
    // installed before - the SAME handler Arc - after ANOTHER thread installed a different one under that
    // name in between; the re-installation is the registration made last
    if g.case.pre.len() % 3 == 1 {
        let last_reg = g.case.pre.iter().rev().find(|o| matches!(o, Op::RegFn { .. } | Op::RegPre { .. } | Op::RegPost { .. } | Op::RegIn { setter: false, .. })).cloned();
        if let Some(a) = last_reg {
            let (b, use_it) = match &a {
                Op::RegFn { name, .. } => (Op::RegFn { name: name.clone(), h: g.marker(HKind::Func) }, call(name, vec![lit_i(1)])),
                Op::RegPre { name, .. } => (Op::RegPre { name: name.clone(), h: g.marker(HKind::Prefix) }, un(name, lit_i(1))),
                Op::RegPost { name, .. } => (Op::RegPost { name: name.clone(), h: g.marker(HKind::Postfix) }, post(lit_i(1), name)),
                Op::RegIn { name, prec, right, .. } => {
                    (Op::RegIn { name: name.clone(), prec: *prec, setter: false, right: *right, h: g.marker(HKind::Infix) }, bin(name, lit_i(1), lit_i(2)))
                }
                _ => unreachable!(),
            };
            let eval = Op::Exec { prog: Prog::one(use_it), ctx: CtxRef::Fresh(CtxSpec::empty()) };
            g.case.tag = "C08+reload".into();
            g.case.pre.extend(vec![a.clone(), eval.clone(), Op::OnThread { ops: vec![b, eval.clone()] }, a, eval]);
        }
    }
    let stats = [g.adjacent_pairs, g.chains, g.overrides, g.shadows];
    (g.case, stats)
}

fn judge(case: &Arc<Case>, out: &crate::simrt::RunOutput, rt: &mut Rt) -> Option<(String, String)> {
    match judge_vs_model(case, out, rt) {
        Judged::Violated(c, d) => Some((c, d)),
        Judged::Skipped(u) => {
            rt.skip(&format!("unmodelled: {}", u.split(':').next().unwrap_or("")));
            None
        }
        Judged::Held(_) => None,
    }
}

impl Prop for C08 {
    fn meta(&self) -> PropMeta {
        PropMeta {
            id: "C08",
            level: "exploration",
            rule: "case = a seeded history of 3..13 operations by one simulated caller in a fresh simulated process: register_function / prefix / infix / postfix \
                   (fresh word names - a third of them first used as plain names -, symbolic names and names such as `~=` / `is-a` / `@@`, re-registrations, overrides of built-ins, precedences in 1..=10^9 biased to collide with or sit at +-1/+-2 of \
                   existing levels, both associativities, one associativity per level), interleaved with calls (context function / variable shadowing a \
                   global name, unknown names), prefix/postfix applications, and parses and evaluations of unparenthesised operator chains of 2..5 operators \
                   over the current table, and executions of ASTs that were parsed before the whole history (they must dispatch to what is registered when they are \
                   executed); one operation in eight is made by another (spawned and joined) thread; every handler returns a structural marker. The first operation is a registration in half of the cases \
                   (registration before first use). evaluations = simulated executions; distinct_nontrivial = distinct histories containing at least two \
                   registrations and one chain",
            assumptions: &[
                "the reference is a last-writer-wins registry (context function, then global, then error) and a textbook precedence-climbing parser; built-in levels are the documented table",
                "`not`, `?:` and prefix/postfix operators inside chains are not generated (C02); mixed associativity at one level is not generated; registered operators never share level 20 with the assignment operators",
                "built-in operator values come from the engine used as a calculator",
            ],
            fault_kinds: &["fresh_process", "register_before_first_use", "thread_teardown"],
            probes: &["adjacent_precedence_pair_in_chain", "builtin_overridden", "context_shadows_global", "chains", "operation_on_another_thread", "word_used_before_it_became_an_operator", "same_handler_reinstalled_after_another_thread_replaced_it"],
        }
    }

    fn n_indices(&self, tier: Tier) -> u64 {
        100000 * tier.scale()
    }

    fn run_index(&self, idx: u64, seed: u64, tier: Tier, rt: &mut Rt) -> Vec<Violation> {
        let mut r = Prng::derive(seed, "C08.case", idx);
        let (case, st) = gen_case(&mut r, tier == Tier::Thorough);
        let case = Arc::new(case);
        rt.case_seen(case.fingerprint());
        for _ in 0..st[0] {
            rt.probe("adjacent_precedence_pair_in_chain");
        }
        for _ in 0..st[1] {
            rt.probe("chains");
        }
        for _ in 0..st[2] {
            rt.probe("builtin_overridden");
        }
        for _ in 0..st[3] {
            rt.probe("context_shadows_global");
        }
        let out = rt.sim(&case, &SchedSpec::Lowest);
        rt.fired("fresh_process", 1);
        if case.pre.iter().any(|o| matches!(o, Op::OnThread { .. } | Op::OnThreadExit { .. })) {
            rt.probe("operation_on_another_thread");
        }
        if case.pre.iter().any(|o| matches!(o, Op::OnThreadExit { .. })) {
            rt.fired("thread_teardown", 1);
        }
        if case.tag == "C08+reload" {
            rt.probe("same_handler_reinstalled_after_another_thread_replaced_it");
        }
        if case.pre.windows(2).any(|w| matches!((&w[0], &w[1]), (Op::Exec { .. }, o) if o.is_reg())) {
            rt.probe("word_used_before_it_became_an_operator");
        }
        if case.pre[0].is_reg() && case.shared.is_empty() {
            rt.fired("register_before_first_use", 1);
        }
        if case.pre.iter().filter(|o| o.is_reg()).count() >= 2 {
            rt.nontrivial(case.fingerprint());
        }
        if idx % 64 == 0 {
            let again = rt.sim(&case, &SchedSpec::Lowest);
            rt.stats.determinism_rechecks += 1;
            if again.history_hash() != out.history_hash() {
                rt.stats.nondeterminism.push(format!("C08 idx {}", idx));
            }
        }
        rt.sample(json!({
            "history": case.pre.iter().map(crate::props::c13::show_op).collect::<Vec<_>>(),
            "results": out.results().iter().map(|(id, r)| format!("{:?} -> {}", id, r.show())).collect::<Vec<_>>(),
        }));
        match judge(&case, &out, rt) {
            Some((c, d)) => vec![violation("C08", &c, d, seed, idx, &case, &out)],
            None => vec![],
        }
    }

    fn judge_one(&self, case: &Arc<Case>, spec: &SchedSpec, rt: &mut Rt) -> Option<(String, String)> {
        let out = rt.sim(case, spec);
        judge(case, &out, rt)
    }
}
