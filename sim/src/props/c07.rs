//! C07 — each subexpression runs once, left to right; conditionals are lazy;
//! evaluation stops at the first error.  One simulated caller; the recorded
//! handler history must equal the model's post-order log exactly, fault-free
//! and with an Err injected at EVERY handler invocation index.

use crate::case::*;
use crate::expr::*;
use crate::gen::*;
use crate::modelcheck::*;
use crate::prng::Prng;
use crate::prop::*;
use crate::sched::SchedSpec;
use serde_json::json;
use std::sync::Arc;

pub struct C07;

pub const NAMES: [&str; 4] = ["x", "y", "z", "w"];

pub fn gen_case(r: &mut Prng, tag: &str, allow_panicky_bare: bool, big: bool) -> Case {
    let mut case = Case::new(tag);
    case.slots.push(base_ctx(r, &NAMES));
    let knobs = Knobs {
        observable: *r.pick(&[20, 35, 50]),
        max_depth: 2 + r.below(if big { 4 } else { 3 }) as u32,
        max_nodes: 8 + r.usize(if big { 18 } else { 8 }),
        ctx_call: r.chance(4, 5),
        ctx_bare: allow_panicky_bare && r.chance(3, 5),
        global_fn: r.chance(3, 5),
        ops: r.chance(3, 5),
        assignments: true,
        dumpers: false,
    };
    let depth = knobs.max_depth;
    let nst = 1 + r.usize(if big { 5 } else { 3 });
    let (stmts, regs) = {
        let mut g = Gen::new(r, &mut case, knobs, 0);
        g.assign_names = NAMES.iter().map(|s| s.to_string()).collect();
        let mut stmts = vec![];
        for _ in 0..nst {
            g.nodes = 0;
            let s = match g.r.below(8) {
                0 | 1 => g.assignment(&NAMES, depth),
                2 => g.statement(&NAMES, depth),
                _ => g.any(depth),
            };
            stmts.push(s);
        }
        (stmts, std::mem::take(&mut g.regs))
    };
    case.pre = regs;
    let prog = Prog::Stmts(stmts);
    let eval = if r.chance(1, 3) {
        if case.handlers.len() % 2 == 0 { Op::ExecSole { prog, slot: 0 } } else { Op::ParseExec { prog, ctx: CtxRef::Slot(0), times: 1 } }
    } else {
        Op::Exec { prog, ctx: CtxRef::Slot(0) }
    };
    if r.chance(1, 4) {
        // the same program evaluated twice in one process lifetime: every visit runs every handler again
        case.pre.push(eval.clone());
    }
    case.pre.push(eval);
    case.post.push(Op::CtxDump { slot: 0 });
    case
}

fn observable_nodes(case: &Case) -> usize {
    case.handlers.len()
}

impl Prop for C07 {
    fn meta(&self) -> PropMeta {
        PropMeta {
            id: "C07",
            level: "exploration",
            rule: "case = one seeded expression tree program (1..3 statements, depth <= 5, <= 16 nodes; binary/unary/postfix operators, calls, lists, maps, \
                   conditionals, plain-name assignments) in which a seeded subset of nodes are observable (logging context functions by call and by bare \
                   name, global functions, harness-registered prefix/infix/postfix operators), rendered fully parenthesised, evaluated by one simulated \
                   caller in a fresh simulated process; run fault-free and once per handler-invocation index k with Err injected at k. \
                   evaluations = simulated executions of the real engine; distinct_nontrivial = distinct (program, k) pairs whose fault-free history has \
                   at least two handler invocations",
            assumptions: &[
                "value-level results of built-in operators are taken from the engine itself (used as a calculator on scratch contexts); the model owns order, once-ness, laziness and cut-off",
                "programs are fully parenthesised and pre-flighted: a program whose parse differs from the intended tree is skipped and counted, not blamed on this property",
                "targets of plain assignments are variable names (never names bound to context functions), && and || are strict as the statement says",
            ],
            fault_kinds: &["handler_err", "fresh_process"],
            probes: &["fault_at_last_invocation", "fault_at_first_invocation", "lazy_branch_skipped_observable", "bare_name_ctx_function", "assignment_before_fault"],
        }
    }

    fn n_indices(&self, tier: Tier) -> u64 {
        48000 * tier.scale()
    }

    fn run_index(&self, idx: u64, seed: u64, tier: Tier, rt: &mut Rt) -> Vec<Violation> {
        let mut r = Prng::derive(seed, "C07.case", idx);
        let base = Arc::new(gen_case(&mut r, "C07", true, tier == Tier::Thorough));
        rt.case_seen(base.fingerprint());
        if let Err(why) = preflight(&base, rt) {
            rt.skip(&format!("preflight: {}", why.split_whitespace().take(3).collect::<Vec<_>>().join(" ")));
            return vec![];
        }
        let spec = SchedSpec::Lowest;
        let out = rt.sim(&base, &spec);
        rt.fired("fresh_process", 1);
        let m = match judge_vs_model(&base, &out, rt) {
            Judged::Held(m) => m,
            Judged::Skipped(u) => {
                rt.skip(&format!("unmodelled: {}", u.split(':').next().unwrap_or("")));
                return vec![];
            }
            Judged::Violated(c, d) => return vec![violation("C07", &c, d, seed, idx, &base, &out)],
        };
        let n = m.invocations.first().copied().unwrap_or(0);
        if observable_nodes(&base) > n {
            rt.probe("lazy_branch_skipped_observable");
        }
        if base.slots[0].funcs.iter().any(|(name, _)| name.starts_with('b')) && n > 0 {
            rt.probe("bare_name_ctx_function");
        }
        if idx % 64 == 0 {
            let again = rt.sim(&base, &spec);
            rt.stats.determinism_rechecks += 1;
            if again.history_hash() != out.history_hash() {
                rt.stats.nondeterminism.push(format!("C07 idx {}", idx));
            }
        }
        rt.sample(json!({
            "program": match &base.pre.last().unwrap() { Op::Exec{prog,..} | Op::ExecSole{prog,..} | Op::ParseExec{prog,..} => prog.text(), _ => String::new() },
            "context": format!("{:?}", base.slots[0]),
            "registrations": base.pre.iter().filter(|o| o.is_reg()).map(crate::props::c13::show_op).collect::<Vec<_>>(),
            "fault_free_history": out.log.iter().map(show_ev).collect::<Vec<_>>(),
            "fault_positions": n,
        }));
        for k in 0..n {
            let mut c = (*base).clone();
            c.fault = Some(Fault::once(0, k, FaultKind::Err));
            let c = Arc::new(c);
            let out = rt.sim(&c, &spec);
            if out.log.iter().any(|e| matches!(e, Ev::Fault { .. })) {
                rt.fired("handler_err", 1);
            }
            if n >= 2 {
                rt.nontrivial(c.fingerprint());
            }
            if k + 1 == n {
                rt.probe("fault_at_last_invocation");
            }
            if k == 0 {
                rt.probe("fault_at_first_invocation");
            }
            match judge_vs_model(&c, &out, rt) {
                Judged::Held(_) => {
                    if let Some(Res::Dump(d)) = out.result_of(OpId::Post(0)) {
                        let before: Vec<(String, String)> = base.slots[0].vars.iter().map(|(k, v)| (k.clone(), v.show())).collect();
                        if d.iter().any(|(k, v)| v != "<func>" && !before.contains(&(k.clone(), v.clone()))) {
                            rt.probe("assignment_before_fault");
                        }
                    }
                }
                Judged::Skipped(u) => rt.skip(&format!("unmodelled: {}", u.split(':').next().unwrap_or(""))),
                Judged::Violated(cl, d) => return vec![violation("C07", &cl, d, seed, idx, &c, &out)],
            }
        }
        vec![]
    }

    fn judge_one(&self, case: &Arc<Case>, spec: &SchedSpec, rt: &mut Rt) -> Option<(String, String)> {
        let out = rt.sim(case, spec);
        match judge_vs_model(case, &out, rt) {
            Judged::Violated(c, d) => Some((c, d)),
            _ => None,
        }
    }
}
