//! C13 — concurrent use is safe, including first use and concurrent registration.
//! N simulated threads, seeded schedules (PCT / sticky / random portfolio),
//! first-use races, linearizability against the sequential engine.

use crate::case::*;
use crate::expr::*;
use crate::lin::{self, LinResult, SeqOracle};
use crate::prng::Prng;
use crate::prop::*;
use crate::sched::SchedSpec;
use crate::simrt::RunOutput;
use serde_json::json;
use std::sync::Arc;

pub struct C13;

const NODE_BUDGET: usize = 20000;

#[derive(Clone, Copy, PartialEq, Eq, Debug)]
enum Hot {
    Func(&'static str),
    Prefix(&'static str),
    Postfix(&'static str),
    /// name, precedence, setter, right
    Infix(&'static str, i32, bool, bool),
}

const HOT_MENU: &[Hot] = &[
    Hot::Func("f0"),
    Hot::Func("f1"),
    Hot::Func("min"),
    Hot::Func("sum"),
    Hot::Prefix("pw0"),
    Hot::Prefix("-"),
    Hot::Prefix("!"),
    Hot::Postfix("qw0"),
    Hot::Postfix("++"),
    Hot::Infix("iw0", 115, false, false),
    Hot::Infix("iw1", 55, false, true),
    Hot::Infix("+", 110, false, false),
    Hot::Infix("==", 60, false, false),
    Hot::Infix("sw0", 20, true, true),
    Hot::Infix("+=", 20, true, true),
];

fn hkind(h: Hot) -> HKind {
    match h {
        Hot::Func(_) => HKind::Func,
        Hot::Prefix(_) => HKind::Prefix,
        Hot::Postfix(_) => HKind::Postfix,
        Hot::Infix(..) => HKind::Infix,
    }
}

fn reg_op(case: &mut Case, h: Hot) -> Op {
    let setter = matches!(h, Hot::Infix(_, _, true, _));
    // one registration in seven installs a handler that ALWAYS fails: an evaluation that overlaps it must
    // either fail (and have invoked only that handler) or use another registration entirely
    let ret = if setter {
        Ret::Arg(1)
    } else if case.handlers.len() % 7 == 3 {
        Ret::Fail
    } else {
        Ret::Marker
    };
    let hid = case.add_handler(HandlerSpec::plain(hkind(h), ret));
    // a SETTER marker must still identify its registration: wrap through Marker when not setter;
    // for setters the stored value is the right operand, identification comes from the handler log
    match h {
        Hot::Func(n) => Op::RegFn { name: n.into(), h: hid },
        Hot::Prefix(n) => Op::RegPre { name: n.into(), h: hid },
        Hot::Postfix(n) => Op::RegPost { name: n.into(), h: hid },
        Hot::Infix(n, p, s, r) => Op::RegIn { name: n.into(), prec: p, setter: s, right: r, h: hid },
    }
}

/// cold sub-expressions: built-ins that no registration of this case touches
fn cold_leaf(r: &mut Prng, hot: &[Hot]) -> Expr {
    let uses = |n: &str| hot.iter().any(|h| matches!(h, Hot::Func(x) | Hot::Prefix(x) | Hot::Postfix(x) | Hot::Infix(x, ..) if *x == n));
    for _ in 0..8 {
        let e = match r.below(8) {
            0 if !uses("*") => bin("*", lit_i(r.range(1, 9)), lit_i(r.range(1, 9))),
            1 if !uses("max") => call("max", vec![lit_i(r.range(0, 9)), lit_i(r.range(0, 9))]),
            2 if !uses("in") => bin("in", lit_i(2), Expr::List(vec![lit_i(1), lit_i(2)])),
            3 if !uses("--") => post(lit_i(r.range(1, 9)), "--"),
            4 => rf("v"),
            5 if !uses("&&") => bin("&&", lit_b(true), lit_b(r.chance(1, 2))),
            6 if !uses("-") => bin("-", lit_i(r.range(5, 9)), lit_i(r.range(0, 4))),
            _ => lit_i(r.range(0, 20)),
        };
        if matches!(e, Expr::Lit(_)) && r.chance(1, 2) {
            continue;
        }
        return e;
    }
    lit_i(7)
}

/// a program that looks up the hot name exactly once (and nothing else hot)
fn hot_use(r: &mut Prng, h: Hot, hot: &[Hot]) -> Expr {
    let others: Vec<Hot> = hot.to_vec();
    let a = cold_leaf(r, &others);
    let b = cold_leaf(r, &others);
    match h {
        Hot::Func(n) => match r.below(3) {
            0 => call(n, vec![a, b]),
            1 => call(n, vec![lit_i(3), lit_i(1)]),
            _ => Expr::List(vec![a, call(n, vec![b])]),
        },
        Hot::Prefix(n) => {
            if n == "!" {
                un(n, lit_b(r.chance(1, 2)))
            } else {
                un(n, if r.chance(1, 2) { lit_i(r.range(1, 9)) } else { a })
            }
        }
        Hot::Postfix(n) => post(if r.chance(1, 2) { lit_i(r.range(1, 9)) } else { a }, n),
        Hot::Infix(n, _, true, _) => bin(n, rf("x"), lit_i(r.range(1, 9))),
        Hot::Infix(n, ..) => bin(n, lit_i(r.range(1, 9)), if r.chance(1, 2) { lit_i(r.range(1, 9)) } else { b }),
    }
}

fn probe(r: &mut Prng) -> Expr {
    match r.below(9) {
        // the negated infix form `a not in b` (parsed as not (a in b))
        8 => bin("not in", lit_i(2), Expr::List(vec![lit_i(1), lit_i(2)])),
        0 => bin("+", lit_i(1), bin("*", lit_i(2), lit_i(3))),
        1 => call("min", vec![lit_i(3), lit_i(1)]),
        2 => bin("in", lit_i(2), Expr::List(vec![lit_i(2)])),
        3 => un("-", lit_i(1)),
        // programs whose very FIRST token is a keyword operator of the built-in tables
        4 => un("not", lit_b(false)),
        5 => un("AND", Expr::List(vec![lit_b(true), lit_b(false)])),
        6 => un("OR", Expr::List(vec![lit_b(false), lit_b(true)])),
        _ => post(lit_i(1), "++"),
    }
}

fn thread_ctx(t: usize) -> CtxSpec {
    CtxSpec { vars: vec![("v".into(), Val::int(10 + t as i64)), ("x".into(), Val::int(t as i64))], funcs: vec![] }
}

fn gen_s(r: &mut Prng, big: bool) -> Case {
    let mut case = Case::new("S");
    // thorough tier: up to 5 threads x 4 calls
    let nthreads = 2 + r.usize(if big { 4 } else { 3 });
    let race = r.chance(1, 2);
    let nhot = 1 + r.usize(3);
    let mut hot: Vec<Hot> = vec![];
    while hot.len() < nhot {
        let h = *r.pick(HOT_MENU);
        let name = |h: &Hot| match h {
            Hot::Func(n) | Hot::Prefix(n) | Hot::Postfix(n) | Hot::Infix(n, ..) => *n,
        };
        // "+" and "+=" etc. are different names, but never two hot entries sharing a name/fixity
        if !hot.iter().any(|x| name(x) == name(&h)) {
            hot.push(h);
        }
    }
    for t in 0..nthreads {
        case.slots.push(thread_ctx(t));
    }
    if !race {
        // the engine has been used, and some hot names are already registered
        case.pre.push(Op::Exec { prog: Prog::one(probe(r)), ctx: CtxRef::Fresh(CtxSpec::empty()) });
        for h in hot.clone() {
            if r.chance(1, 2) {
                let op = reg_op(&mut case, h);
                case.pre.push(op);
            }
        }
    } else if r.chance(1, 4) {
        // a registration made before the engine was first used by anybody
        let h = *r.pick(&hot);
        let op = reg_op(&mut case, h);
        case.pre.push(op);
    }
    let mut any_reg = false;
    for t in 0..nthreads {
        let n = 1 + r.usize(if big { 4 } else { 3 });
        let mut ops = vec![];
        for _ in 0..n {
            if r.chance(2, 5) {
                let h = *r.pick(&hot);
                ops.push(reg_op(&mut case, h));
                any_reg = true;
            } else {
                let e = match r.below(12) {
                    10 => {
                        // a deeply nested (60..100 levels) but perfectly legal cold program
                        let mut e = lit_i(1);
                        for i in 0..(60 + r.usize(40)) {
                            e = if i % 2 == 0 { bin("*", e, lit_i(1)) } else { Expr::List(vec![e]) };
                        }
                        e
                    }
                    11 => {
                        // side effects on the thread's own kept context: a call that ran twice shows
                        let effects = Expr::List(vec![bin("=", rf("cnt"), bin("*", rf("v"), lit_i(2))), bin("=", rf("v"), bin("*", rf("v"), lit_i(3))), rf("v")]);
                        if t % 2 == 1 {
                            // ... also when the side effects happen in an OPERAND of a binary node (whatever the
                            // operator then makes of the values: a built-in, never registered by anybody)
                            bin("in", effects, Expr::List(vec![rf("v"), rf("cnt")]))
                        } else {
                            effects
                        }
                    }
                    0..=5 => {
                        let h = *r.pick(&hot);
                        hot_use(r, h, &hot)
                    }
                    6..=7 => {
                        // probes of the built-in tables (may coincide with a hot name: still one lookup)
                        let p = probe(r);
                        let mentions_hot = |e: &Expr| {
                            let t = e.render();
                            hot.iter().filter(|h| match h {
                                Hot::Func(n) => t.contains(&format!("{}(", n)),
                                Hot::Prefix(n) | Hot::Postfix(n) | Hot::Infix(n, ..) => t.split(' ').any(|w| w == *n),
                            }).count()
                        };
                        if mentions_hot(&p) <= 1 { p } else { lit_i(1) }
                    }
                    _ => cold_leaf(r, &hot),
                };
                let ctx = if r.chance(1, 2) { CtxRef::Slot(t) } else { CtxRef::Fresh(thread_ctx(t)) };
                let prog = Prog::one(e);
                ops.push(match r.below(4) {
                    0 => Op::Parse { prog },
                    1 => Op::ParseExec { prog, ctx, times: 1 },
                    _ => Op::Exec { prog, ctx },
                });
            }
        }
        case.threads.push(ops);
    }
    if !any_reg {
        let h = *r.pick(&hot);
        let op = reg_op(&mut case, h);
        let t = r.usize(nthreads);
        case.threads[t].push(op);
    }
    // after the join: one use of every hot name and a probe, by the main task
    for h in hot.clone() {
        let e = hot_use(r, h, &hot);
        case.post.push(Op::Exec { prog: Prog::one(e), ctx: CtxRef::Fresh(thread_ctx(9)) });
    }
    case.post.push(Op::Exec { prog: Prog::one(probe(r)), ctx: CtxRef::Fresh(CtxSpec::empty()) });
    case
}

/// Family R: registration-only races.  The threads only (re-)register a few infix operators with
/// DIFFERENT complete configurations (precedence, associativity, handler); nothing is parsed or
/// evaluated while they run, so no evaluation can observe a registration half-way.  After the join,
/// unparenthesised chains reveal precedence, associativity and handler of what is registered: it must
/// be exactly ONE of the configurations (the last one in some sequential order), never a mixture.
fn gen_r(r: &mut Prng) -> Case {
    let mut case = Case::new("R");
    let names: Vec<String> = (0..(1 + r.usize(2))).map(|i| format!("rw{}", i)).collect();
    let mk = |case: &mut Case, r: &mut Prng, name: &str| -> Op {
        let h = case.add_handler(HandlerSpec::plain(HKind::Infix, Ret::Marker));
        Op::RegIn { name: name.into(), prec: *r.pick(&[30, 105, 115, 125]), setter: false, right: r.chance(1, 2), h }
    };
    if r.chance(1, 2) {
        case.pre.push(Op::Exec { prog: Prog::one(lit_i(1)), ctx: CtxRef::Fresh(CtxSpec::empty()) });
    }
    for n in &names {
        if r.chance(2, 3) {
            let op = mk(&mut case, r, n);
            case.pre.push(op);
        }
    }
    let nthreads = 2 + r.usize(3);
    for _ in 0..nthreads {
        let mut ops = vec![];
        for _ in 0..(1 + r.usize(2)) {
            let n = r.pick(&names).clone();
            ops.push(mk(&mut case, r, &n));
        }
        case.threads.push(ops);
    }
    for n in &names {
        let ops = |a: &str, b: &str| vec![a.to_string(), b.to_string()];
        case.post.push(Op::Exec {
            prog: Prog::Chain(vec![lit_i(1), lit_i(2), lit_i(3), lit_i(4)], vec!["+".into(), n.clone(), "*".into()]),
            ctx: CtxRef::Fresh(CtxSpec::empty()),
        });
        case.post.push(Op::Parse { prog: Prog::Chain(vec![rf("a"), rf("b"), rf("c")], ops(n, n)) });
    }
    case
}

/// The four torn-read probes (DESIGN.md C13, family T).
/// Family W: a WARM process.  The main task first evaluates a few dozen small programs (whatever the
/// engine keeps about use counts, recency or look-up order is populated and keeps moving), then the
/// threads evaluate small programs over the same few operators and functions concurrently.  Nothing is
/// registered, so every call has exactly one correct result whatever the interleaving.
fn gen_w(r: &mut Prng) -> Case {
    let mut case = Case::new("W");
    let pool: Vec<Expr> = vec![
        bin("+", lit_i(1), lit_i(2)),
        bin("-", lit_i(5), lit_i(3)),
        bin("*", lit_i(2), lit_i(3)),
        bin("/", lit_i(8), lit_i(2)),
        bin("%", lit_i(7), lit_i(4)),
        bin("==", lit_i(1), lit_i(1)),
        bin("<", lit_i(1), lit_i(2)),
        bin("&&", lit_b(true), lit_b(false)),
        bin("beginWith", lit_s("abc"), lit_s("ab")),
        call("max", vec![lit_i(1), lit_i(7)]),
        call("min", vec![lit_i(3), lit_i(1)]),
        un("-", lit_i(4)),
        un("not", lit_b(false)),
        post(lit_i(1), "++"),
    ];
    // the warm-up concentrates on two programs; so do the threads
    let hot = [r.pick(&pool).clone(), r.pick(&pool).clone()];
    let nwarm = 10 + r.usize(50);
    for _ in 0..nwarm {
        let e = if r.chance(3, 4) { r.pick(&hot).clone() } else { r.pick(&pool).clone() };
        case.pre.push(Op::Exec { prog: Prog::one(e), ctx: CtxRef::Fresh(CtxSpec::empty()) });
    }
    let nthreads = 2 + r.usize(2);
    for t in 0..nthreads {
        case.slots.push(thread_ctx(t));
        let n = 2 + r.usize(4);
        let mut ops = vec![];
        for _ in 0..n {
            let e = if r.chance(1, 2) { r.pick(&hot).clone() } else { r.pick(&pool).clone() };
            let prog = Prog::one(e);
            ops.push(match r.below(4) {
                0 => Op::Parse { prog },
                1 => Op::ParseExec { prog, ctx: CtxRef::Fresh(thread_ctx(t)), times: 1 },
                _ => Op::Exec { prog, ctx: CtxRef::Fresh(thread_ctx(t)) },
            });
        }
        case.threads.push(ops);
    }
    for e in &hot {
        case.post.push(Op::Exec { prog: Prog::one(e.clone()), ctx: CtxRef::Fresh(CtxSpec::empty()) });
    }
    case
}

pub fn template(name: &str) -> Case {
    let mut c = Case::new(name);
    let cst = |c: &mut Case, k: HKind, v: i64| c.add_handler(HandlerSpec::plain(k, Ret::Const(Val::int(v))));
    let empty = || CtxRef::Fresh(CtxSpec::empty());
    match name {
        "T1" => {
            // one name at two sites:  f()+f()  ||  f:=1 ; f:=10     (f=100 before)
            let h0 = cst(&mut c, HKind::Func, 100);
            let h1 = cst(&mut c, HKind::Func, 1);
            let h2 = cst(&mut c, HKind::Func, 10);
            c.pre.push(Op::RegFn { name: "f".into(), h: h0 });
            c.threads.push(vec![Op::Exec { prog: Prog::one(bin("+", call("f", vec![]), call("f", vec![]))), ctx: empty() }]);
            c.threads.push(vec![Op::RegFn { name: "f".into(), h: h1 }, Op::RegFn { name: "f".into(), h: h2 }]);
        }
        "T2" => {
            // two names: the state (old f, new g) never existed
            let f0 = cst(&mut c, HKind::Func, 1);
            let g0 = cst(&mut c, HKind::Func, 2);
            let f1 = cst(&mut c, HKind::Func, 11);
            let g1 = cst(&mut c, HKind::Func, 12);
            c.pre.push(Op::RegFn { name: "f".into(), h: f0 });
            c.pre.push(Op::RegFn { name: "g".into(), h: g0 });
            c.threads.push(vec![Op::Exec { prog: Prog::one(Expr::List(vec![call("f", vec![]), call("g", vec![])])), ctx: empty() }]);
            c.threads.push(vec![Op::RegFn { name: "f".into(), h: f1 }, Op::RegFn { name: "g".into(), h: g1 }]);
        }
        "T3" => {
            // type and handler of one infix operator are fetched under two lock acquisitions
            let m1 = c.add_handler(HandlerSpec::plain(HKind::Infix, Ret::Marker));
            let m2 = c.add_handler(HandlerSpec::plain(HKind::Infix, Ret::Marker));
            c.pre.push(Op::RegIn { name: "op".into(), prec: 115, setter: false, right: false, h: m1 });
            c.threads.push(vec![Op::Exec {
                prog: Prog::one(bin("op", rf("x"), lit_i(5))),
                ctx: CtxRef::Fresh(CtxSpec { vars: vec![("x".into(), Val::int(1))], funcs: vec![] }),
            }]);
            c.threads.push(vec![Op::RegIn { name: "op".into(), prec: 115, setter: true, right: false, h: m2 }]);
        }
        "T4" => {
            // the tokenizer and the parser consult the registries per token
            let m = c.add_handler(HandlerSpec::plain(HKind::Infix, Ret::Marker));
            c.pre.push(Op::Exec { prog: Prog::one(lit_i(1)), ctx: empty() });
            c.threads.push(vec![Op::Parse { prog: Prog::Chain(vec![rf("a"), rf("b"), rf("c")], vec!["hi".into(), "hi".into()]) }]);
            c.threads.push(vec![Op::RegIn { name: "hi".into(), prec: 115, setter: false, right: false, h: m }]);
        }
        _ => panic!("unknown template {}", name),
    }
    c
}

pub const TEMPLATES: [&str; 4] = ["T1", "T2", "T3", "T4"];

pub fn schedule_for(r: &mut Prng, j: u64, decisions: u32) -> SchedSpec {
    if j == 0 {
        return SchedSpec::Lowest;
    }
    let seed = r.next();
    let d = decisions.max(2);
    match r.below(8) {
        0 => SchedSpec::Random { seed },
        1 => SchedSpec::Sticky { seed, stay: *r.pick(&[50u8, 90, 98]) },
        _ => {
            let depth = 1 + r.below(4) as u8;
            let (lo, hi) = match r.below(5) {
                0 => (0, d / 2),
                1 => (d / 2, d),
                2 => (d / 4, 3 * d / 4),
                3 => (d / 3, d),
                _ => (0, d),
            };
            SchedSpec::Pct { seed, depth, lo, hi }
        }
    }
}

fn overlapping_pairs(calls: &[lin::Call]) -> usize {
    let mut n = 0;
    for i in 0..calls.len() {
        for j in i + 1..calls.len() {
            if calls[i].task != calls[j].task && calls[i].inv < calls[j].ret && calls[j].inv < calls[i].ret {
                n += 1;
            }
        }
    }
    n
}

fn reach(case: &Case, out: &RunOutput, calls: &[lin::Call], rt: &mut Rt) {
    let op = |id: OpId| match id {
        OpId::Pre(i) => &case.pre[i],
        OpId::Thr(t, i) => &case.threads[t][i],
        OpId::Post(i) => &case.post[i],
    };
    let first_use = case.pre.is_empty() || case.pre.iter().all(|o| o.is_reg());
    if first_use && case.threads.len() >= 2 {
        // more than one task started its first engine call before any call returned
        let first_ret = calls.iter().map(|c| c.ret).min().unwrap_or(0);
        let started: std::collections::BTreeSet<usize> = calls.iter().filter(|c| c.inv < first_ret).map(|c| c.task).collect();
        if started.len() >= 2 {
            rt.fired("first_use_race", 1);
            rt.fired("preempt_in_init", 1);
        }
    }
    if !case.pre.is_empty() && case.pre[0].is_reg() {
        rt.fired("register_before_first_use", 1);
    }
    let mut ov = 0;
    for i in 0..calls.len() {
        for j in 0..calls.len() {
            if i != j && calls[i].task != calls[j].task && calls[i].inv < calls[j].ret && calls[j].inv < calls[i].ret {
                if op(calls[i].id).is_reg() && !op(calls[j].id).is_reg() {
                    ov += 1;
                }
            }
        }
    }
    rt.fired("reg_overlaps_eval", ov);
    rt.fired("preempt_in_call", out.rec.preemptions as u64);
    rt.fired("fresh_process", 1);
}

/// judge one run; `oracle` is shared by all schedules of the same case
fn judge(case: &Arc<Case>, out: &RunOutput, oracle: &mut SeqOracle, rt: &mut Rt) -> Option<(String, String)> {
    lin_judge(case, out, oracle, rt, true)
}

/// no panic, no deadlock/livelock, every call returned, and the history is linearizable against the
/// sequential engine (shared with the concurrent sub-family of C18)
pub fn lin_judge(case: &Arc<Case>, out: &RunOutput, oracle: &mut SeqOracle, rt: &mut Rt, with_reach: bool) -> Option<(String, String)> {
    if let Some(v) = run_level_violation(out) {
        return Some(v);
    }
    for (id, res) in out.results() {
        if let Some(m) = first_panic(&res) {
            return Some(("panic".into(), format!("{:?} panicked: {}", id, m)));
        }
    }
    let all = lin::calls_of(out);
    let expected = case.n_ops();
    if all.len() != expected {
        return Some(("incomplete".into(), format!("{} of {} calls returned", all.len(), expected)));
    }
    let calls: Vec<lin::Call> = all.into_iter().filter(|c| !matches!(c.id, OpId::Pre(_))).collect();
    if with_reach {
        reach(case, out, &calls, rt);
    }
    if overlapping_pairs(&calls) > 0 {
        rt.nontrivial(out.schedule_hash() ^ case.fingerprint());
    }
    match lin::check(&calls, oracle, rt, NODE_BUDGET) {
        LinResult::Linearizable(w) => {
            let mut by_inv: Vec<&lin::Call> = calls.iter().collect();
            by_inv.sort_by_key(|c| c.inv);
            if by_inv.iter().map(|c| c.id).collect::<Vec<_>>() != w {
                rt.probe("lin_witness_not_invocation_order");
            }
            None
        }
        LinResult::Inconclusive => {
            rt.skip("linearizability_search_budget");
            None
        }
        LinResult::NotLinearizable(d) => Some(("non_linearizable".into(), d)),
    }
}

impl Prop for C13 {
    fn meta(&self) -> PropMeta {
        PropMeta {
            id: "C13",
            level: "exploration",
            rule: "case = pre-ops + 2..4 simulated threads x 1..3 calls (execute/parse/parse+exec/register_* with unique marker handlers) \
                   + post-join uses, generated from the seed (family S: each evaluation looks up at most one concurrently registered name, once; \
                   family R: threads only (re-)register infix operators with different complete configurations and unparenthesised chains reveal the outcome after the join; family W: 10..60 warm-up evaluations by the main task, then 2..3 threads evaluating small programs over the same operators concurrently, nothing registered; family T: the four fixed torn-read micro-histories); each case runs under a calibration schedule and a seeded portfolio \
                   (PCT depth 1..4 with windowed change points / sticky / uniform random). evaluations = simulated executions of the real engine; \
                   distinct_nontrivial = distinct (case, recorded schedule) pairs whose history contains at least one pair of calls from different \
                   threads that overlap in real time",
            assumptions: &[
                "std::sync::Mutex and once_cell::sync::OnceCell are replaced by the shuttle-backed seam (verif_sync); scheduling points are exactly lock/unlock, once-cell initialisation, spawn and join",
                "the sequential specification is the same engine run by one thread in a fresh simulated process (refinement against its own sequential behaviour)",
                "errors are compared by error-ness only",
            ],
            fault_kinds: &["first_use_race", "preempt_in_init", "preempt_in_call", "reg_overlaps_eval", "register_before_first_use", "fresh_process"],
            probes: &["torn_T1", "torn_T2", "torn_T3", "torn_T4", "lin_witness_not_invocation_order", "warm_process_then_concurrent_use"],
        }
    }

    fn n_indices(&self, tier: Tier) -> u64 {
        8000 * tier.scale()
    }

    fn run_index(&self, idx: u64, seed: u64, tier: Tier, rt: &mut Rt) -> Vec<Violation> {
        let mut r = Prng::derive(seed, "C13.case", idx);
        // every 25th index is a T template (cycling), the rest are S cases
        let (case, nsched) = if idx % 25 == 24 {
            (template(TEMPLATES[((idx / 25) % 4) as usize]), 400u64)
        } else if idx % 25 == 23 {
            (gen_r(&mut r), 40u64)
        } else if idx % 25 == 22 {
            rt.probe("warm_process_then_concurrent_use");
            (gen_w(&mut r), 40u64)
        } else {
            (gen_s(&mut r, tier == Tier::Thorough), if tier == Tier::Thorough { 60u64 } else { 40u64 })
        };
        let case = Arc::new(case);
        rt.case_seen(case.fingerprint());
        let mut oracle = SeqOracle::new(&case);
        let mut decisions = 0;
        let mut out_v = vec![];
        let mut sr = Prng::derive(seed, "C13.sched", idx);
        for j in 0..nsched {
            let spec = schedule_for(&mut sr, j, decisions);
            let out = rt.sim(&case, &spec);
            if j == 0 {
                decisions = out.rec.decisions;
                if idx % 16 == 0 {
                    let again = rt.sim(&case, &spec);
                    rt.stats.determinism_rechecks += 1;
                    if again.history_hash() != out.history_hash() {
                        rt.stats.nondeterminism.push(format!("C13 idx {} calibration run differs between two executions", idx));
                    }
                }
            }
            if let Some((class, detail)) = judge(&case, &out, &mut oracle, rt) {
                if case.tag.starts_with('T') && class == "non_linearizable" {
                    rt.probe(&format!("torn_{}", case.tag));
                }
                out_v.push(violation("C13", &class, detail, seed, idx, &case, &out));
                break;
            }
            if j == 1 {
                rt.sample(json!({
                    "family": case.tag,
                    "pre": case.pre.iter().map(show_op).collect::<Vec<_>>(),
                    "threads": case.threads.iter().map(|t| t.iter().map(show_op).collect::<Vec<_>>()).collect::<Vec<_>>(),
                    "post": case.post.iter().map(show_op).collect::<Vec<_>>(),
                    "schedule": format!("{:?}", spec),
                    "schedule_prefix": out.rec.choices.iter().take(40).collect::<Vec<_>>(),
                    "results": out.results().iter().map(|(id, r)| format!("{:?} -> {}", id, r.show())).collect::<Vec<_>>(),
                }));
            }
        }
        out_v
    }

    fn judge_one(&self, case: &Arc<Case>, spec: &SchedSpec, rt: &mut Rt) -> Option<(String, String)> {
        let mut oracle = SeqOracle::new(case);
        let out = rt.sim(case, spec);
        judge(case, &out, &mut oracle, rt)
    }
}

pub fn show_op(op: &Op) -> String {
    match op {
        Op::RegFn { name, h } => format!("register_function({:?}, h{})", name, h),
        Op::RegPre { name, h } => format!("register_prefix_op({:?}, h{})", name, h),
        Op::RegPost { name, h } => format!("register_postfix_op({:?}, h{})", name, h),
        Op::RegIn { name, prec, setter, right, h } => format!(
            "register_infix_op({:?}, {}, {}, {}, h{})",
            name,
            prec,
            if *setter { "SETTER" } else { "CALC" },
            if *right { "RIGHT" } else { "LEFT" },
            h
        ),
        Op::Exec { prog, ctx } => format!("execute({:?}, {})", prog.text(), show_ctx(ctx)),
        Op::ExecSole { prog, slot } => format!("parse_expression({:?}).exec(slot {} as the ONLY strong owner of its handle)", prog.text(), slot),
        Op::Parse { prog } => format!("parse_expression({:?})", prog.text()),
        Op::ParseExec { prog, ctx, times } => format!("parse_expression({:?}).exec({}) x{}", prog.text(), show_ctx(ctx), times),
        Op::ExecShared { ast, ctx } => format!("shared_ast[{}].exec({})", ast, show_ctx(ctx)),
        Op::Pause => "pause(the handler is slow: other threads run meanwhile)".to_string(),
        Op::OnThreadExit { ops, late } => format!(
            "on_new_thread_and_again_from_the_destructor_of_its_thread_local_first_touched_{}_the_body[{}]",
            if *late { "after" } else { "before" },
            ops.iter().map(show_op).collect::<Vec<_>>().join("; ")
        ),
        Op::OnThread { ops } => format!("on_new_thread[{}]", ops.iter().map(show_op).collect::<Vec<_>>().join("; ")),
        Op::WithManager { regs, then } => format!(
            "with_one_manager_handle[set {:?}; then {}; drop]",
            regs,
            then.iter().map(show_op).collect::<Vec<_>>().join("; ")
        ),
        Op::Describe { prog } => format!("parse_expression({:?}).describe()", prog.text()),
        other => format!("{:?}", other),
    }
}

pub fn show_ctx(c: &CtxRef) -> String {
    match c {
        CtxRef::Slot(i) => format!("ctx#{}", i),
        CtxRef::Fresh(s) => format!(
            "{{{}}}",
            s.vars
                .iter()
                .map(|(k, v)| format!("{}={}", k, v.show()))
                .chain(s.funcs.iter().map(|(k, h)| format!("{}=fn h{}", k, h)))
                .collect::<Vec<_>>()
                .join(", ")
        ),
    }
}
