//! One module per claimed property.
use crate::prop::Prop;

pub mod c07;
pub mod c13;
pub mod c14;
pub mod c15;

pub fn all() -> Vec<&'static dyn Prop> {
    vec![&c07::C07, &c13::C13, &c14::C14, &c15::C15]
}

pub fn get(id: &str) -> Option<&'static dyn Prop> {
    all().into_iter().find(|p| p.meta().id == id)
}
