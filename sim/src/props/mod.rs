//! One module per claimed property.
use crate::prop::Prop;

pub mod c13;

pub fn all() -> Vec<&'static dyn Prop> {
    vec![&c13::C13]
}

pub fn get(id: &str) -> Option<&'static dyn Prop> {
    all().into_iter().find(|p| p.meta().id == id)
}
