//! One module per claimed property.
use crate::prop::Prop;

pub mod c06;
pub mod c07;
pub mod c08;
pub mod c13;
pub mod c14;
pub mod c15;
pub mod c16;
pub mod c18;

pub fn all() -> Vec<&'static dyn Prop> {
    vec![&c06::C06, &c07::C07, &c08::C08, &c13::C13, &c14::C14, &c15::C15, &c16::C16, &c18::C18]
}

pub fn get(id: &str) -> Option<&'static dyn Prop> {
    all().into_iter().find(|p| p.meta().id == id)
}
