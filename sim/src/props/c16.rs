//! C16 — evaluations are deterministic and isolated from one another.
//! Sequences and thread interleavings of parse/exec over a pool of programs
//! that reuse names, assign, or fail midway, every operation on its own
//! context; each operation must return exactly what the same operation returns
//! alone in a fresh simulated process with the same registrations.

use crate::case::*;
use crate::expr::*;
use crate::gen::*;
use crate::lin::calls_of;
use crate::prng::Prng;
use crate::prop::*;
use crate::sched::SchedSpec;
use crate::simrt::RunOutput;
use serde_json::json;
use std::collections::HashMap;
use std::sync::Arc;

pub struct C16;

const NAMES: [&str; 4] = ["x", "y", "z", "w"];

fn gen_case(r: &mut Prng, big: bool) -> Case {
    let mut case = Case::new("C16");
    // registrations happen only before the threads start
    let hm = case.add_handler(HandlerSpec::plain(HKind::Func, Ret::Marker));
    case.pre.push(Op::RegFn { name: "gm".into(), h: hm });
    if r.chance(1, 2) {
        let hp = case.add_handler(HandlerSpec::plain(HKind::Prefix, Ret::Marker));
        case.pre.push(Op::RegPre { name: "pm".into(), h: hp });
    }
    if r.chance(1, 2) {
        // a built-in function replaced by the application (must stay replaced whatever is evaluated later)
        let hs = case.add_handler(HandlerSpec::plain(HKind::Func, Ret::Marker));
        case.pre.push(Op::RegFn { name: (*r.pick(&["sum", "mul", "max"])).into(), h: hs });
    }
    let minus_overridden = r.chance(1, 3);
    if minus_overridden {
        // the application replaced the prefix `-` (parsing `- 5` must not run it, and a kept AST must
        // apply whatever is registered when it is EVALUATED)
        let hn = case.add_handler(HandlerSpec::plain(HKind::Prefix, Ret::Marker));
        case.pre.push(Op::RegPre { name: "-".into(), h: hn });
    }
    if r.chance(1, 2) {
        // the engine has been used before
        case.pre.insert(0, Op::Exec { prog: Prog::one(lit_i(1)), ctx: CtxRef::Fresh(CtxSpec::empty()) });
    }
    // a pool of programs that reuse the same few names
    let npool = 3 + r.usize(4);
    let mut pool: Vec<(Prog, CtxSpec)> = vec![];
    for i in 0..npool {
        case.slots.clear();
        case.slots.push(base_ctx(r, &NAMES));
        let knobs = Knobs {
            observable: *r.pick(&[0, 15]),
            max_depth: 1 + r.below(3) as u32,
            max_nodes: 10,
            ctx_call: true,
            ctx_bare: true,
            global_fn: false,
            ops: false,
            assignments: true,
            dumpers: false,
        };
        let depth = knobs.max_depth;
        let nst = 1 + r.usize(4);
        let mut stmts = {
            let mut g = Gen::new(r, &mut case, knobs, 0);
        g.assign_names = NAMES.iter().map(|s| s.to_string()).collect();
            (0..nst)
                .map(|_| {
                    g.nodes = 0;
                    g.statement(&NAMES, depth)
                })
                .collect::<Vec<_>>()
        };
        match r.below(9) {
            0 => stmts.push(call("gm", vec![rf("x"), rf("y")])),
            3 => stmts.push(call(*r.pick(&["sum", "mul", "max", "min"]), vec![lit_i(5), lit_i(6)])),
            4 => {
                // a context function that shadows a global / built-in function of the same name: the
                // binding must win in every evaluation, whatever was evaluated before
                let name = *r.pick(&["sum", "max", "gm"]);
                let h = case.add_handler(HandlerSpec::plain(HKind::CtxFunc, Ret::Const(Val::int(17))));
                case.slots[0].funcs.push((name.into(), h));
                stmts.push(call(name, vec![lit_i(5), lit_i(6)]));
            }
            5 if i == 0 => {
                // a program with more than 128 distinct lexemes
                stmts.push(Expr::List((0..150).map(|k| rf(&format!("n{}", k))).collect()));
                stmts.push(bin("&&", bin("in", lit_i(3), Expr::List(vec![lit_i(1), lit_i(2), lit_i(3)])), bin("<=", lit_i(2), lit_i(3))));
            }
            1 => stmts.insert(r.usize(stmts.len() + 1), bin("+", lit_b(true), lit_i(1))), // fails midway
            6 => stmts.push(Expr::List(vec![un("-", lit_i(5)), un("-", rf("x")), un("+", lit_i(2))])),
            2 if i > 0 => {
                // textually close to an earlier program: same statements but the last
                let mut s2 = match &pool[i - 1].0 {
                    Prog::Stmts(s) => s.clone(),
                    _ => vec![],
                };
                s2.pop();
                s2.push(stmts.pop().unwrap());
                stmts = s2;
            }
            _ => {}
        }
        let ctx = case.slots[0].clone();
        pool.push((Prog::Stmts(stmts), ctx));
    }
    // programs that differ ONLY in the amount of whitespace inside a string literal
    for i in 0..pool.len() {
        if let Prog::Stmts(s) = &pool[i].0 {
            if s.iter().any(|e| e.render().contains("a b") || e.render().contains("John Smith")) && r.chance(2, 3) {
                let wide: Vec<Expr> = s.iter().map(|e| e.map_strings(&|t: &str| t.replace(' ', "  "))).collect();
                let mut stmts = wide;
                // make the difference observable: compare against the narrow spelling
                stmts.push(bin("==", lit_s("a  b"), lit_s("a b")));
                let ctx = pool[i].1.clone();
                let mut narrow = s.clone();
                narrow.push(bin("==", lit_s("a b"), lit_s("a b")));
                pool.push((Prog::Stmts(narrow), ctx.clone()));
                pool.push((Prog::Stmts(stmts), ctx));
                break;
            }
        }
    }
    case.slots.clear();
    // shared ASTs: parsed once by the main task, executed by several threads
    let nshared = r.usize(3);
    for _ in 0..nshared {
        let (p, _) = r.pick(&pool).clone();
        case.shared.push(p);
    }
    let long_history = r.chance(1, 8);
    if long_history {
        // a long history on one thread, most of it failing deep inside nested expressions
        case.tag = "C16-long".into();
        let mut deep_fail = bin("+", rf("x"), lit_b(true));
        for i in 0..(2 + r.usize(8)) {
            deep_fail = match i % 3 {
                0 => bin("+", lit_i(1), deep_fail),
                1 => bin("*", deep_fail, lit_i(2)),
                _ => call("max", vec![deep_fail, lit_i(1)]),
            };
        }
        let mut deep_ok = bin("+", rf("x"), lit_i(1));
        for i in 0..(2 + r.usize(8)) {
            deep_ok = match i % 3 {
                0 => bin("+", lit_i(1), deep_ok),
                1 => bin("*", deep_ok, lit_i(2)),
                _ => call("max", vec![deep_ok, lit_i(1)]),
            };
        }
        let ctx = CtxSpec { vars: vec![("x".into(), Val::int(2))], funcs: vec![] };
        pool.push((Prog::one(deep_fail), ctx.clone()));
        pool.push((Prog::one(deep_ok), ctx));
    }
    if !long_history && r.chance(1, 10) {
        // a WARM process: the main task evaluates 20..140 programs of the pool before the threads start
        // (whatever the engine keeps about use counts, recency or look-up order keeps moving while they run)
        case.tag = "C16-warm".into();
        for _ in 0..(20 + r.usize(120)) {
            let (prog, ctx) = r.pick(&pool).clone();
            case.pre.push(Op::Exec { prog, ctx: CtxRef::Fresh(ctx) });
        }
    }
    let nthreads = if long_history { 1 } else { 1 + r.usize(if big { 4 } else { 3 }) };
    for _ in 0..nthreads {
        // one long history in five is VERY long (1000..2000 operations)
        let nops = if long_history { if r.chance(1, 5) { 1000 + r.usize(1000) } else { 60 + r.usize(200) } } else { 1 + r.usize(if big { 6 } else { 4 }) };
        let mut ops = vec![];
        for _ in 0..nops {
            let (prog, ctx) = if long_history && r.chance(2, 3) { pool[pool.len() - 2 + r.usize(2)].clone() } else { r.pick(&pool).clone() };
            // every operation gets its own context; sometimes one that differs from the program's usual one
            let ctx = if r.chance(1, 4) { r.pick(&pool).1.clone() } else { ctx };
            let very_long = nops >= 1000;
            ops.push(match if very_long { 4 + r.below(2) } else { r.below(8) } {
                0 | 1 => Op::Parse { prog },
                2 | 3 => Op::Exec { prog, ctx: CtxRef::Fresh(ctx) },
                4 => Op::ParseExec { prog, ctx: CtxRef::Fresh(ctx), times: 1 },
                5 => Op::ParseExec { prog, ctx: CtxRef::Fresh(ctx), times: 2 + r.below(2) as u8 },
                _ if !case.shared.is_empty() => Op::ExecShared { ast: r.usize(case.shared.len()), ctx: CtxRef::Fresh(ctx) },
                _ => Op::Exec { prog, ctx: CtxRef::Fresh(ctx) },
            });
        }
        case.threads.push(ops);
    }
    // after any history the registries answer a fixed probe set exactly as in a fresh process
    for e in [
        bin("+", lit_i(1), bin("*", lit_i(2), lit_i(3))),
        call("min", vec![lit_i(3), lit_i(1)]),
        call("gm", vec![lit_i(1)]),
        call("sum", vec![lit_i(5), lit_i(6)]),
        call("max", vec![lit_i(1), lit_i(7)]),
        call("mul", vec![lit_i(2), lit_i(3)]),
        bin("in", lit_i(2), Expr::List(vec![lit_i(2)])),
        rf("x"),
    ] {
        case.post.push(Op::Exec { prog: Prog::one(e), ctx: CtxRef::Fresh(CtxSpec::empty()) });
    }
    case.post.push(Op::Parse { prog: Prog::Chain(vec![rf("a"), rf("b"), rf("c")], vec!["+".into(), "*".into()]) });
    // describe() of a parsed program is as independent of what was evaluated before as evaluation is
    case.post.push(Op::Describe { prog: Prog::one(tern(bin("<", rf("a"), lit_i(2)), call("max", vec![rf("b"), Expr::List(vec![lit_i(1), un("-", rf("c"))])]), post(rf("a"), "++"))) });
    // SLOW handlers: every other handler of the case is a scheduling point, so that other threads evaluate
    // (the same programs, the same handler Arcs, their own contexts) while one is parked inside user code
    for (i, h) in case.handlers.iter_mut().enumerate() {
        if i % 2 == 0 && h.actions.is_empty() {
            h.actions.push(Op::Pause);
        }
    }
    case
}

/// the operation alone, in a fresh simulated process, after the same registrations
struct AloneOracle {
    case: Arc<Case>,
    memo: HashMap<String, Res>,
}

impl AloneOracle {
    fn new(case: &Arc<Case>) -> AloneOracle {
        AloneOracle { case: case.clone(), memo: HashMap::new() }
    }
    fn alone(&mut self, op: &Op, rt: &mut Rt) -> Res {
        let key = serde_json::to_string(op).unwrap();
        if let Some(r) = self.memo.get(&key) {
            return r.clone();
        }
        let mut c = (*self.case).clone();
        c.pre.retain(|o| o.is_reg());
        c.threads = vec![];
        c.post = vec![];
        let n0 = c.pre.len();
        c.pre.push(op.clone());
        let out = rt.oracle_sim(&Arc::new(c));
        let r = out.result_of(OpId::Pre(n0)).cloned().unwrap_or(Res::P("oracle run did not complete".into()));
        // which handlers the operation invoked, with which arguments, in order, is part of its outcome
        let sig = crate::lin::handlers_by_op(&out.log).get(&OpId::Pre(n0)).cloned().unwrap_or_default();
        let r = Res::Many(vec![r, Res::Text(sig)]);
        self.memo.insert(key, r.clone());
        r
    }
}

fn op_of(case: &Case, id: OpId) -> &Op {
    match id {
        OpId::Pre(i) => &case.pre[i],
        OpId::Thr(t, i) => &case.threads[t][i],
        OpId::Post(i) => &case.post[i],
    }
}

fn judge(case: &Arc<Case>, out: &RunOutput, oracle: &mut AloneOracle, rt: &mut Rt) -> Option<(String, String)> {
    if let Some(v) = run_level_violation(out) {
        return Some(v);
    }
    // parsing alone changes nothing observable: in particular it runs no handler of the application
    {
        let mut parsing: std::collections::HashSet<usize> = std::collections::HashSet::new();
        for e in &out.log {
            match e {
                Ev::Inv { op, task } if matches!(op_of(case, *op), Op::Parse { .. }) => {
                    parsing.insert(*task);
                }
                Ev::Ret { task, .. } => {
                    parsing.remove(task);
                }
                Ev::H { hid, task, .. } if parsing.contains(task) => {
                    return Some(("handler_invoked_by_parse".into(), format!("task {} invoked handler h{} while inside parse_expression()", task, hid)));
                }
                _ => {}
            }
        }
    }
    let results = out.results();
    if results.len() != case.n_ops() {
        return Some(("incomplete".into(), format!("{} of {} operations returned", results.len(), case.n_ops())));
    }
    let sigs = crate::lin::handlers_by_op(&out.log);
    for (id, raw) in &results {
        if matches!(id, OpId::Pre(_)) {
            continue;
        }
        let op = op_of(case, *id);
        let alone = oracle.alone(op, rt);
        let res = &Res::Many(vec![raw.clone(), Res::Text(sigs.get(id).cloned().unwrap_or_default())]);
        // the engine is compared with itself here, so the text of an Err is part of the result
        if !res.same_exact(&alone) {
            return Some((
                "differs_from_alone".into(),
                format!(
                    "{:?} = {} returned {} inside the history but {} alone in a fresh process",
                    id,
                    crate::props::c13::show_op(op),
                    res.show(),
                    alone.show()
                ),
            ));
        }
        // repeated execs of one AST on equal fresh contexts agree with each other
        let res = raw;
        if let (Op::ParseExec { times, .. }, Res::Many(xs)) = (op, res) {
            if *times > 1 && xs.len() == 1 + 2 * (*times as usize) {
                for t in 1..*times as usize {
                    if !xs[1].same(&xs[1 + 2 * t]) || !xs[2].same(&xs[2 + 2 * t]) {
                        return Some(("repeated_exec_differs".into(), format!("{:?}: {}", id, res.show())));
                    }
                }
            }
        }
    }
    None
}

impl Prop for C16 {
    fn meta(&self) -> PropMeta {
        PropMeta {
            id: "C16",
            level: "exploration",
            rule: "case = registrations (before the threads start) + a pool of 3..6 seeded programs that reuse the same variable and function names, assign, \
                   fail midway or are textually close + 1..3 simulated threads x 1..4 operations {parse, execute, parse-then-exec, exec the same AST n times \
                   on equal fresh contexts, exec an AST shared between threads}, each on its own context + a probe set after the join; every eighth case is one long single-thread history of 60..260 operations, two thirds \
                   of them deeply nested evaluations that fail or succeed at depth; 1-thread cases run \
                   under the single possible schedule, multi-thread cases under a seeded portfolio (PCT / sticky / random). Every operation's result and final \
                   context are compared with the same operation alone in a fresh simulated process. evaluations = simulated executions; \
                   distinct_nontrivial = distinct (case, schedule) pairs with at least two evaluating operations of which one assigns or fails",
            assumptions: &[
                "the specification is the engine itself running the operation alone in a fresh simulated process after the same registrations",
                "context functions in these programs return constants (a handler with its own state would legitimately couple evaluations)",
            ],
            fault_kinds: &["first_use_race", "preempt_in_call", "fresh_process"],
            probes: &["long_failing_history", "shared_ast_executed_by_two_threads", "program_fails_midway", "same_program_twice_in_history", "textually_close_programs", "warm_process_then_concurrent_use"],
        }
    }

    fn n_indices(&self, tier: Tier) -> u64 {
        10000 * tier.scale()
    }

    fn run_index(&self, idx: u64, seed: u64, tier: Tier, rt: &mut Rt) -> Vec<Violation> {
        let mut r = Prng::derive(seed, "C16.case", idx);
        let case = Arc::new(gen_case(&mut r, tier == Tier::Thorough));
        rt.case_seen(case.fingerprint());
        let mut oracle = AloneOracle::new(&case);
        let nsched = if case.threads.len() > 1 { if tier == Tier::Thorough { 24 } else { 12 } } else { 1 };
        let mut sr = Prng::derive(seed, "C16.sched", idx);
        let mut decisions = 0;
        // reach
        let mut shared_users = std::collections::BTreeMap::new();
        let mut texts = std::collections::BTreeMap::new();
        for (t, ops) in case.threads.iter().enumerate() {
            for op in ops {
                if let Op::ExecShared { ast, .. } = op {
                    shared_users.entry(*ast).or_insert_with(std::collections::BTreeSet::new).insert(t);
                }
                if let Op::Exec { prog, .. } | Op::ExecSole { prog, .. } | Op::ParseExec { prog, .. } | Op::Parse { prog } = op {
                    *texts.entry(prog.text()).or_insert(0) += 1;
                }
            }
        }
        if shared_users.values().any(|s| s.len() >= 2) {
            rt.probe("shared_ast_executed_by_two_threads");
        }
        if texts.values().any(|n| *n >= 2) {
            rt.probe("same_program_twice_in_history");
        }
        {
            let ks: Vec<&String> = texts.keys().collect();
            let close = ks.iter().enumerate().any(|(i, a)| {
                ks[i + 1..].iter().any(|b| {
                    let common = a.bytes().zip(b.bytes()).take_while(|(x, y)| x == y).count();
                    common >= 8 && common * 2 >= a.len().min(b.len())
                })
            });
            if close {
                rt.probe("textually_close_programs");
            }
        }
        if texts.keys().any(|t| t.contains("true + 1")) {
            rt.probe("program_fails_midway");
        }
        let evals: usize = case.threads.iter().map(|t| t.len()).sum();
        if case.tag == "C16-long" {
            rt.probe("long_failing_history");
        }
        if case.tag == "C16-warm" {
            rt.probe("warm_process_then_concurrent_use");
        }
        for j in 0..nsched {
            let spec = crate::props::c13::schedule_for(&mut sr, j, decisions);
            let out = rt.sim(&case, &spec);
            rt.fired("fresh_process", 1);
            rt.fired("preempt_in_call", out.rec.preemptions as u64);
            if j == 0 {
                decisions = out.rec.decisions;
                if idx % 32 == 0 {
                    let again = rt.sim(&case, &spec);
                    rt.stats.determinism_rechecks += 1;
                    if again.history_hash() != out.history_hash() {
                        rt.stats.nondeterminism.push(format!("C16 idx {}", idx));
                    }
                }
            }
            if case.threads.len() > 1 && !case.pre.iter().any(|o| !o.is_reg()) {
                let calls = calls_of(&out);
                let first_ret = calls.iter().filter(|c| !matches!(c.id, OpId::Pre(_))).map(|c| c.ret).min().unwrap_or(0);
                let started: std::collections::BTreeSet<usize> =
                    calls.iter().filter(|c| !matches!(c.id, OpId::Pre(_)) && c.inv < first_ret).map(|c| c.task).collect();
                if started.len() >= 2 {
                    rt.fired("first_use_race", 1);
                }
            }
            if evals >= 2 {
                rt.nontrivial(out.schedule_hash() ^ case.fingerprint());
            }
            if let Some((c, d)) = judge(&case, &out, &mut oracle, rt) {
                return vec![violation("C16", &c, d, seed, idx, &case, &out)];
            }
            if j == 0 {
                rt.sample(json!({
                    "registrations": case.pre.iter().map(crate::props::c13::show_op).collect::<Vec<_>>(),
                    "shared_asts": case.shared.iter().map(|p| p.text()).collect::<Vec<_>>(),
                    "threads": case.threads.iter().map(|t| t.iter().map(crate::props::c13::show_op).collect::<Vec<_>>()).collect::<Vec<_>>(),
                    "results": out.results().iter().map(|(id, r)| format!("{:?} -> {}", id, r.show())).collect::<Vec<_>>(),
                }));
            }
        }
        vec![]
    }

    fn judge_one(&self, case: &Arc<Case>, spec: &SchedSpec, rt: &mut Rt) -> Option<(String, String)> {
        let mut oracle = AloneOracle::new(case);
        let out = rt.sim(case, spec);
        judge(case, &out, &mut oracle, rt)
    }
}
