//! Oracles: (1) the reference model, run inside its own single-task simulated
//! process so that it can use the pristine engine as a calculator for the
//! value-level meaning of built-ins; (2) the sequential engine (used by the
//! linearizability and isolation checks).

use crate::case::*;
use crate::expr::Val;
use crate::model::{run_model, Calc, CalcFail, ModelOut};
use crate::sched::{SchedRecord, SchedSpec, SimScheduler};
use expression_engine::{execute, Context};
use std::cell::RefCell;
use std::collections::HashMap;
use std::panic::{catch_unwind, AssertUnwindSafe};
use std::sync::{Arc, Mutex as StdMutex};

thread_local! {
    // keyed by a 64-bit hash of (program text, operand values); bounded, because a thorough run asks
    // millions of distinct questions and sixteen workers share the machine's memory
    static MEMO: RefCell<HashMap<u64, Result<Val, CalcFail>>> = RefCell::new(HashMap::new());
    pub static CALC_STATS: RefCell<(u64, u64)> = RefCell::new((0, 0)); // (hits, misses)
}

struct EngineCalc;

fn eval_on(text: &str, vars: &[(&str, &Val)]) -> Result<Val, CalcFail> {
    let key_text = format!("{}|{}", text, vars.iter().map(|(_, v)| v.show()).collect::<Vec<_>>().join("|"));
    let key = crate::prng::h64(key_text.as_bytes());
    if let Some(r) = MEMO.with(|m| m.borrow().get(&key).cloned()) {
        CALC_STATS.with(|s| s.borrow_mut().0 += 1);
        return r;
    }
    CALC_STATS.with(|s| s.borrow_mut().1 += 1);
    let r = match catch_unwind(AssertUnwindSafe(|| {
        let mut c = Context::new();
        for (k, v) in vars {
            c.set_variable(k, v.to_engine());
        }
        execute(text, c)
    })) {
        Ok(Ok(v)) => Ok(Val::from_engine(&v)),
        Ok(Err(_)) => Err(CalcFail::Err),
        Err(_) => {
            if std::env::var("VERIF_LOUD").is_ok() {
                { use std::io::Write; if let Ok(mut f) = std::fs::OpenOptions::new().create(true).append(true).open("/tmp/calc_panic.log") { let _ = writeln!(f, "CALCULATOR-PANIC: {}", key_text); } }
            }
            Err(CalcFail::Broken(format!("engine panicked evaluating {}", key_text.chars().take(80).collect::<String>())))
        }
    };
    MEMO.with(|m| {
        let mut m = m.borrow_mut();
        if m.len() > 200_000 {
            m.clear();
        }
        m.insert(key, r.clone());
    });
    r
}

impl Calc for EngineCalc {
    fn infix(&mut self, op: &str, a: &Val, b: &Val) -> Result<Val, CalcFail> {
        eval_on(&format!("a {} b", op), &[("a", a), ("b", b)])
    }
    fn prefix(&mut self, op: &str, a: &Val) -> Result<Val, CalcFail> {
        eval_on(&format!("{} a", op), &[("a", a)])
    }
    fn postfix(&mut self, op: &str, a: &Val) -> Result<Val, CalcFail> {
        eval_on(&format!("a {}", op), &[("a", a)])
    }
    fn func(&mut self, name: &str, args: &[Val]) -> Result<Val, CalcFail> {
        let names: Vec<String> = (0..args.len()).map(|i| format!("a{}", i)).collect();
        let text = format!("{}({})", name, names.join(", "));
        let vars: Vec<(&str, &Val)> = names.iter().map(|n| n.as_str()).zip(args.iter()).collect();
        eval_on(&text, &vars)
    }
}

/// Run the reference model on a case (in a fresh single-task simulated process).
pub fn model_run(case: &Arc<Case>) -> ModelOut {
    let out: Arc<StdMutex<Option<ModelOut>>> = Arc::new(StdMutex::new(None));
    let (o2, c2) = (out.clone(), case.clone());
    let rec = Arc::new(StdMutex::new(SchedRecord::default()));
    let mut cfg = shuttle::Config::new();
    cfg.stack_size = if case.tag == "deep-chain" { 1 << 24 } else { 1 << 19 };
    cfg.failure_persistence = shuttle::FailurePersistence::None;
    cfg.silence_warnings = true;
    crate::simrt::ensure_hook();
    let runner = shuttle::Runner::new(SimScheduler::new(SchedSpec::Lowest, rec), cfg);
    let r = catch_unwind(AssertUnwindSafe(move || {
        runner.run(move || {
            // the engine is used as a CALCULATOR below: make sure no question is the first engine call of
            // this simulated process (whatever a first call does differently must not leak into the answers,
            // which are memoised across cases)
            let _ = catch_unwind(AssertUnwindSafe(|| execute("0", Context::new())));
            let mut calc = EngineCalc;
            let m = run_model(&c2, &mut calc);
            *o2.lock().unwrap() = Some(m);
        })
    }));
    if let Err(p) = r {
        let msg = p.downcast_ref::<String>().cloned().unwrap_or_default();
        return ModelOut { log: vec![], unmodelled: Some(format!("model run crashed: {}", msg)), invocations: vec![] };
    }
    let m = out.lock().unwrap().take();
    m.unwrap_or(ModelOut { log: vec![], unmodelled: Some("model produced nothing".into()), invocations: vec![] })
}
