//! Generic judge: compare the recorded history of a simulated run with the
//! history the reference model predicts for the same case, task by task.

use crate::case::*;
use crate::model::ModelOut;
use crate::prop::*;
use crate::simrt::RunOutput;
use std::collections::BTreeSet;
use std::sync::Arc;

fn task_of(e: &Ev) -> usize {
    match e {
        Ev::Inv { task, .. } | Ev::Ret { task, .. } | Ev::H { task, .. } | Ev::Act { task, .. } | Ev::Fault { task, .. } => *task,
    }
}

fn ev_same(a: &Ev, b: &Ev) -> bool {
    match (a, b) {
        (Ev::Ret { op: o1, task: t1, res: r1 }, Ev::Ret { op: o2, task: t2, res: r2 }) => o1 == o2 && t1 == t2 && r1.same(r2),
        (Ev::Act { hid: h1, task: t1, idx: i1, res: r1 }, Ev::Act { hid: h2, task: t2, idx: i2, res: r2 }) => {
            h1 == h2 && t1 == t2 && i1 == i2 && r1.same(r2)
        }
        (a, b) => a == b,
    }
}

pub fn show_ev(e: &Ev) -> String {
    match e {
        Ev::Inv { op, task } => format!("t{} invoke {:?}", task, op),
        Ev::Ret { op, task, res } => format!("t{} return {:?} = {}", task, op, res.show()),
        Ev::H { hid, task, args } => {
            format!("t{} handler h{}({})", task, hid, args.iter().map(|a| a.show()).collect::<Vec<_>>().join(", "))
        }
        Ev::Act { hid, task, idx, res } => format!("t{} h{} re-entrant action #{} = {}", task, hid, idx, res.show()),
        Ev::Fault { hid, task, kind } => format!("t{} fault {:?} injected in h{}", task, kind, hid),
    }
}

/// first difference between the real and the predicted history, per task
pub fn diff(real: &[Ev], model: &[Ev]) -> Option<(String, String)> {
    let tasks: BTreeSet<usize> = real.iter().chain(model.iter()).map(task_of).collect();
    for t in tasks {
        let r: Vec<&Ev> = real.iter().filter(|e| task_of(e) == t).collect();
        let m: Vec<&Ev> = model.iter().filter(|e| task_of(e) == t).collect();
        let n = r.len().min(m.len());
        for i in 0..n {
            if !ev_same(r[i], m[i]) {
                let class = match (r[i], m[i]) {
                    (Ev::Ret { res, .. }, Ev::Ret { res: mr, .. }) => {
                        if first_panic(res).is_some() && first_panic(mr).is_none() {
                            "unexpected_panic"
                        } else {
                            "result_mismatch"
                        }
                    }
                    (Ev::Act { .. }, Ev::Act { .. }) => "reentrant_result_mismatch",
                    _ => "handler_sequence_mismatch",
                };
                let ctx_from = i.saturating_sub(3);
                return Some((
                    class.to_string(),
                    format!(
                        "task {} event #{}: engine: {} | model: {} || preceding (engine): {}",
                        t,
                        i,
                        show_ev(r[i]),
                        show_ev(m[i]),
                        r[ctx_from..i].iter().map(|e| show_ev(e)).collect::<Vec<_>>().join(" ; ")
                    ),
                ));
            }
        }
        if r.len() != m.len() {
            let (longer, who) = if r.len() > m.len() { (&r, "engine") } else { (&m, "model") };
            return Some((
                "handler_sequence_mismatch".to_string(),
                format!(
                    "task {}: the {} history continues after the other ended ({} vs {} events): next is {}",
                    t,
                    who,
                    r.len(),
                    m.len(),
                    show_ev(longer[n])
                ),
            ));
        }
    }
    None
}

pub enum Judged {
    Held(ModelOut),
    Skipped(String),
    Violated(String, String),
}

/// run-level verdicts first (deadlock, livelock), then the history comparison
pub fn judge_vs_model(case: &Arc<Case>, out: &RunOutput, rt: &mut Rt) -> Judged {
    if let Some((c, d)) = run_level_violation(out) {
        return Judged::Violated(c, d);
    }
    let m = rt.model(case);
    if let Some(u) = &m.unmodelled {
        return Judged::Skipped(u.clone());
    }
    match diff(&out.log, &m.log) {
        None => Judged::Held(m),
        Some((c, d)) => Judged::Violated(c, d),
    }
}

/// Pre-flight: does every program of the case parse to the tree the harness
/// intended, under the registrations that precede it?  (A mismatch is a
/// tokenizer/parser matter — C02/C05/C10 — not the property under test: the
/// case is skipped and counted.)  Runs in its own simulated process.
pub fn preflight(case: &Arc<Case>, rt: &mut Rt) -> Result<(), String> {
    let mut c = (**case).clone();
    c.fault = None;
    c.threads = vec![];
    c.post = vec![];
    // keep registrations, replace evaluations by parses
    let mut pre = vec![];
    let mut all: Vec<Op> = case.pre.clone();
    for t in &case.threads {
        all.extend(t.iter().cloned());
    }
    all.extend(case.post.iter().cloned());
    // all registrations first (from everywhere, including re-entrant handler actions), then one
    // parse per fully parenthesised program.  Operator chains are never pre-flighted: their
    // grouping is what C08 decides.
    fn collect(ops: &[Op], regs: bool, pre: &mut Vec<Op>) {
        for op in ops {
            match op {
                Op::Exec { prog, .. } | Op::ExecSole { prog, .. } | Op::ParseExec { prog, .. } | Op::Parse { prog } | Op::Describe { prog } => {
                    if !regs && matches!(prog, crate::expr::Prog::Stmts(_)) {
                        pre.push(Op::Parse { prog: prog.clone() })
                    }
                }
                Op::OnThread { ops } | Op::OnThreadExit { ops, .. } => collect(ops, regs, pre),
                Op::WithManager { then, .. } => collect(then, regs, pre),
                o if o.is_reg() => {
                    if regs {
                        pre.push(o.clone())
                    }
                }
                _ => {}
            }
        }
    }
    for regs in [true, false] {
        collect(&all, regs, &mut pre);
        for h in &case.handlers {
            collect(&h.actions, regs, &mut pre);
        }
        if !regs {
            for p in &case.shared {
                if matches!(p, crate::expr::Prog::Stmts(_)) {
                    pre.push(Op::Parse { prog: p.clone() });
                }
            }
        }
    }
    c.pre = pre;
    for h in c.handlers.iter_mut() {
        h.actions.clear();
    }
    let c = Arc::new(c);
    let out = rt.oracle_sim(&c);
    let m = rt.model(&c);
    if let Some(u) = m.unmodelled {
        return Err(format!("unmodelled: {}", u));
    }
    for (id, res) in out.results() {
        let mr = m.result_of(id);
        if let (Res::Ast(a), Some(Res::Ast(b))) = (&res, mr) {
            if a != b {
                return Err(format!("program parses to {} instead of {}", a, b));
            }
        } else if matches!(res, Res::E(_) | Res::P(_)) {
            return Err(format!("program does not parse: {}", res.show()));
        }
    }
    Ok(())
}
