//! Master / worker orchestration, violation handling (known findings,
//! minimisation, replay verification), evidence.

use crate::prop::*;
use crate::props;
use crate::shrink::Shrinker;
use serde::{Deserialize, Serialize};
use serde_json::json;
use std::collections::{BTreeMap, BTreeSet};
use std::io::{BufRead, BufReader, Write};
use std::path::{Path, PathBuf};
use std::process::{Command, Stdio};
use std::sync::{Arc, Mutex};
use std::time::{Duration, Instant};

pub const DEFAULT_SEED: u64 = 20260926;

/// JSON in, without serde_json's nesting limit: a deeply nested generated program is a deeply nested value
pub fn from_json<T: serde::de::DeserializeOwned>(text: &str) -> Result<T, serde_json::Error> {
    let mut de = serde_json::Deserializer::from_str(text);
    de.disable_recursion_limit();
    T::deserialize(&mut de)
}

fn home() -> PathBuf {
    PathBuf::from(std::env::var("VERIF_HOME").unwrap_or_else(|_| "/verif".into()))
}
fn repo() -> PathBuf {
    PathBuf::from(std::env::var("VERIF_REPO").unwrap_or_else(|_| "/repo".into()))
}
fn out_root() -> PathBuf {
    // evidence and replays of runs against a scratch copy never overwrite the committed ones
    if repo() == Path::new("/repo") {
        home()
    } else {
        home().join("build").join(std::env::var("VERIF_BUILD_TAG").unwrap_or_else(|_| "alt".into()))
    }
}
fn seed_env() -> u64 {
    std::env::var("VERIF_SEED").ok().and_then(|s| s.trim().parse::<u64>().ok()).unwrap_or(DEFAULT_SEED)
}
fn tier_env() -> Tier {
    match std::env::var("VERIF_TIER").unwrap_or_default().as_str() {
        "thorough" => Tier::Thorough,
        _ => Tier::Quick,
    }
}
fn workers_env() -> usize {
    std::env::var("VERIF_WORKERS")
        .ok()
        .and_then(|s| s.parse::<usize>().ok())
        .unwrap_or_else(|| std::thread::available_parallelism().map(|n| n.get()).unwrap_or(4))
        .max(1)
}

pub fn main(args: &[String]) -> i32 {
    if args.is_empty() {
        eprintln!("usage: simcheck <PROPERTY> | replay <file> | determinism [IDS] | show <PROPERTY> <idx>");
        return 2;
    }
    match args[0].as_str() {
        "worker" => worker(args),
        "replay" => replay(&args[1]),
        "determinism" => determinism(&args[1..]),
        "crashprobe" => {
            // run one case index in this process (the caller watches how it dies)
            let p = props::get(&args[1]).expect("property");
            let tier = if args[2] == "thorough" { Tier::Thorough } else { Tier::Quick };
            let mut rt = Rt::new();
            let _ = p.run_index(args[4].parse().unwrap(), args[3].parse().unwrap(), tier, &mut rt);
            0
        }
        "histprobe" => {
            // run the indices a worker w of nw meets, in its order, up to idx, in THIS process, and say
            // whether idx violates (state that only the process's earlier history explains: heap layout,
            // address reuse, anything outside the seam)
            let tier = if args[2] == "thorough" { Tier::Thorough } else { Tier::Quick };
            hist_run(&args[1], tier, args[3].parse().unwrap(), args[4].parse().unwrap(), args[5].parse().unwrap(), args[6].parse().unwrap())
        }
        "fidelity" => fidelity(&args[1..]),
        "show" => show(&args[1], args[2].parse().unwrap()),
        "parse-report" => {
            // debugging aid: does a worker's report line deserialize?
            let text = std::fs::read_to_string(&args[1]).unwrap_or_default();
            for line in text.lines() {
                if let Some(rest) = line.strip_prefix("R ") {
                    match from_json::<WorkerReport>(rest) {
                        Ok(r) => println!("ok: {} violations", r.violations.len()),
                        Err(e) => println!("ERROR: {}", e),
                    }
                }
            }
            0
        }
        "fingerprints" => {
            for t in props::c13::TEMPLATES {
                println!("C13 {} fingerprint={:016x}", t, props::c13::template(t).fingerprint());
            }
            0
        }
        "list" => {
            for p in props::all() {
                println!("{}", p.meta().id);
            }
            0
        }
        id => match props::get(id) {
            Some(p) => check(p, tier_env(), seed_env()),
            None => {
                eprintln!("unknown property or command {}", id);
                2
            }
        },
    }
}

#[derive(Serialize, Deserialize)]
struct WorkerReport {
    stats: Stats,
    violations: Vec<Violation>,
    files: BTreeMap<String, String>,
    listing: Vec<(u64, u64)>,
}

fn write_set(path: &Path, set: &BTreeSet<u64>) {
    let mut f = std::fs::File::create(path).unwrap();
    let bytes: Vec<u8> = set.iter().flat_map(|x| x.to_le_bytes()).collect();
    f.write_all(&bytes).unwrap();
}
fn read_set(path: &Path, into: &mut BTreeSet<u64>) {
    if let Ok(bytes) = std::fs::read(path) {
        for c in bytes.chunks_exact(8) {
            into.insert(u64::from_le_bytes(c.try_into().unwrap()));
        }
    }
}

/// simcheck worker <ID> <tier> <seed> <w> <W> <outdir> [listing]
fn worker(args: &[String]) -> i32 {
    let p = props::get(&args[1]).expect("property");
    let tier = if args[2] == "thorough" { Tier::Thorough } else { Tier::Quick };
    let seed: u64 = args[3].parse().unwrap();
    let w: u64 = args[4].parse().unwrap();
    let nw: u64 = args[5].parse().unwrap();
    let outdir = PathBuf::from(&args[6]);
    let want_listing = args.get(7).map(|s| s == "listing").unwrap_or(false);
    let n = p.n_indices(tier);
    let mut rt = Rt::new();
    for pr in p.meta().probes {
        rt.declare_probe(pr);
    }
    let mut violations = vec![];
    let mut listing = vec![];
    let known = known_findings();
    let isolated = std::env::var("VERIF_ISOLATED").map(|v| v == "1").unwrap_or(false);
    // history probes re-run a worker up to (and including) one index
    let upto: Option<u64> = std::env::var("VERIF_UPTO").ok().and_then(|s| s.parse().ok());
    let stdout = std::io::stdout();
    let mut idx = w;
    while idx < n {
        {
            let mut o = stdout.lock();
            let _ = writeln!(o, "I {}", idx);
            let _ = o.flush();
        }
        rt.digest = 0;
        let vs = if isolated {
            match run_index_forked(p, idx, seed, tier) {
                Ok(rep) => {
                    rt.digest = rep.digest;
                    merge_stats(&mut rt.stats, rep.stats);
                    rep.violations
                }
                Err(e) => {
                    let sig = e.strip_prefix("SIGNAL ").and_then(|r| r.split_whitespace().next()).and_then(|s| s.parse::<i32>().ok());
                    match sig {
                        Some(s) if [libc::SIGSEGV, libc::SIGBUS, libc::SIGILL, libc::SIGABRT, libc::SIGFPE].contains(&s) => rt.stats.crashes.push((idx, s)),
                        _ => rt.stats.harness_errors.push(e),
                    }
                    vec![]
                }
            }
        } else {
            let vs = p.run_index(idx, seed, tier, &mut rt);
            rt.stats.indices += 1;
            vs
        };
        if want_listing {
            // per-index digest of everything that was observed for this index
            listing.push((idx, rt.digest));
        }
        violations.extend(vs);
        // stop early only for violations that are not recorded known findings
        let fresh = violations
            .iter()
            .filter(|v| {
                let fp = format!("{:016x}", v.case.fingerprint());
                !known.iter().any(|k| k.property == v.property && k.class == v.class && k.fingerprint == fp)
            })
            .count();
        if fresh >= 3 {
            break;
        }
        if upto == Some(idx) {
            break;
        }
        idx += nw;
    }
    let mut files = BTreeMap::new();
    for (name, set) in [
        ("interleavings", &rt.stats.interleavings),
        ("histories", &rt.stats.histories),
        ("nontrivial", &rt.stats.nontrivial),
        ("cases", &rt.stats.cases),
    ] {
        let path = outdir.join(format!("w{}.{}", w, name));
        write_set(&path, set);
        files.insert(name.to_string(), path.to_string_lossy().to_string());
    }
    let rep = WorkerReport { stats: rt.stats, violations, files, listing };
    let mut o = stdout.lock();
    let _ = writeln!(o, "R {}", serde_json::to_string(&rep).unwrap());
    let _ = o.flush();
    0
}

fn merge_stats(into: &mut Stats, s: Stats) {
    into.indices += s.indices;
    into.runs += s.runs;
    into.model_runs += s.model_runs;
    into.oracle_runs += s.oracle_runs;
    into.steps += s.steps;
    into.decisions += s.decisions;
    into.switches += s.switches;
    into.preemptions += s.preemptions;
    into.determinism_rechecks += s.determinism_rechecks;
    for (k, v) in s.fired {
        *into.fired.entry(k).or_insert(0) += v;
    }
    for (k, v) in s.probes {
        *into.probes.entry(k).or_insert(0) += v;
    }
    for (k, v) in s.skipped {
        *into.skipped.entry(k).or_insert(0) += v;
    }
    for x in s.samples {
        if into.samples.len() < 12 {
            into.samples.push(x);
        }
    }
    into.nondeterminism.extend(s.nondeterminism);
    into.harness_errors.extend(s.harness_errors);
    into.crashes.extend(s.crashes);
    into.interleavings.extend(s.interleavings);
    into.histories.extend(s.histories);
    into.nontrivial.extend(s.nontrivial);
    into.cases.extend(s.cases);
}

/// what a forked child (isolated mode) sends back for one index
#[derive(Serialize, Deserialize)]
struct IndexReport {
    stats: Stats,
    violations: Vec<Violation>,
    digest: u64,
    sets: [Vec<u64>; 4],
}

/// isolated mode: run one index in a forked child, so that state the seam does not control
/// (thread-locals, plain statics) cannot leak from one simulated process into the next
fn run_index_forked(p: &dyn Prop, idx: u64, seed: u64, tier: Tier) -> Result<IndexReport, String> {
    let mut fds = [0i32; 2];
    if unsafe { libc::pipe(fds.as_mut_ptr()) } != 0 {
        return Err("pipe failed".into());
    }
    let pid = unsafe { libc::fork() };
    if pid < 0 {
        return Err("fork failed".into());
    }
    if pid == 0 {
        unsafe { libc::close(fds[0]) };
        let mut rt = Rt::new();
        for pr in p.meta().probes {
            rt.declare_probe(pr);
        }
        let vs = p.run_index(idx, seed, tier, &mut rt);
        rt.stats.indices = 1;
        let sets = [
            rt.stats.interleavings.iter().copied().collect(),
            rt.stats.histories.iter().copied().collect(),
            rt.stats.nontrivial.iter().copied().collect(),
            rt.stats.cases.iter().copied().collect(),
        ];
        let rep = IndexReport { digest: rt.digest, stats: rt.stats, violations: vs, sets };
        let bytes = serde_json::to_vec(&rep).unwrap();
        let mut off = 0;
        while off < bytes.len() {
            let n = unsafe { libc::write(fds[1], bytes[off..].as_ptr() as *const libc::c_void, bytes.len() - off) };
            if n <= 0 {
                break;
            }
            off += n as usize;
        }
        unsafe { libc::_exit(0) };
    }
    unsafe { libc::close(fds[1]) };
    let mut buf = vec![];
    let mut chunk = [0u8; 65536];
    loop {
        let n = unsafe { libc::read(fds[0], chunk.as_mut_ptr() as *mut libc::c_void, chunk.len()) };
        if n <= 0 {
            break;
        }
        buf.extend_from_slice(&chunk[..n as usize]);
    }
    unsafe { libc::close(fds[0]) };
    let mut status = 0i32;
    unsafe { libc::waitpid(pid, &mut status, 0) };
    let mut rep: IndexReport = from_json(&String::from_utf8_lossy(&buf)).map_err(|e| {
        if libc::WIFSIGNALED(status) {
            format!("SIGNAL {} child for index {} was killed", libc::WTERMSIG(status), idx)
        } else {
            format!("child for index {} died (status {}): {}", idx, status, e)
        }
    })?;
    let [a, b, c, dd] = std::mem::take(&mut rep.sets);
    rep.stats.interleavings = a.into_iter().collect();
    rep.stats.histories = b.into_iter().collect();
    rep.stats.nontrivial = c.into_iter().collect();
    rep.stats.cases = dd.into_iter().collect();
    Ok(rep)
}

struct Merged {
    /// (index, signal) of workers killed by a fatal signal raised by the code under test
    crashes: Vec<(u64, i32)>,
    stats: Stats,
    violations: Vec<Violation>,
    listing: Vec<(u64, u64)>,
    harness: Vec<String>,
}

fn run_workers(id: &str, tier: Tier, seed: u64, nw: usize, listing: bool) -> Merged {
    let scratch = home().join("build").join(format!("run-{}-{}", std::process::id(), nw));
    let _ = std::fs::create_dir_all(&scratch);
    let exe = std::env::current_exe().unwrap();
    let mut children = vec![];
    let reports: Arc<Mutex<Vec<WorkerReport>>> = Arc::new(Mutex::new(vec![]));
    let mut beats: Vec<Arc<Mutex<(Instant, String)>>> = vec![];
    let mut readers = vec![];
    for w in 0..nw {
        let mut cmd = Command::new(&exe);
        cmd.args(["worker", id, tier.name(), &seed.to_string(), &w.to_string(), &nw.to_string(), &scratch.to_string_lossy()]);
        if listing {
            cmd.arg("listing");
        }
        let errlog = std::fs::File::create(scratch.join(format!("w{}.stderr", w))).unwrap();
        let mut child = cmd.stdout(Stdio::piped()).stderr(errlog).stdin(Stdio::null()).spawn().expect("spawn worker");
        let out = child.stdout.take().unwrap();
        let beat = Arc::new(Mutex::new((Instant::now(), String::new())));
        beats.push(beat.clone());
        let reps = reports.clone();
        readers.push(std::thread::spawn(move || {
            for line in BufReader::new(out).lines() {
                let line = match line {
                    Ok(l) => l,
                    Err(_) => break,
                };
                if let Some(rest) = line.strip_prefix("I ") {
                    *beat.lock().unwrap() = (Instant::now(), rest.to_string());
                } else if let Some(rest) = line.strip_prefix("R ") {
                    if let Ok(r) = from_json::<WorkerReport>(rest) {
                        reps.lock().unwrap().push(r);
                    }
                }
            }
        }));
        children.push(child);
    }
    let mut harness = vec![];
    let mut crashes: Vec<(u64, i32)> = vec![];
    let stall = Duration::from_secs(180);
    let mut alive: Vec<bool> = vec![true; nw];
    while alive.iter().any(|a| *a) {
        std::thread::sleep(Duration::from_millis(50));
        for w in 0..nw {
            if !alive[w] {
                continue;
            }
            match children[w].try_wait() {
                Ok(Some(st)) => {
                    alive[w] = false;
                    if !st.success() {
                        let at = beats[w].lock().unwrap().1.clone();
                        use std::os::unix::process::ExitStatusExt;
                        let sig = st.signal().unwrap_or(0);
                        // SIGSEGV / SIGBUS / SIGILL / SIGABRT / SIGFPE: the engine itself crashed (memory
                        // unsafety, abort on a double panic, stack exhaustion) - a candidate violation, to be
                        // confirmed by re-running that index in a fresh process.  Anything else (SIGKILL = out of
                        // memory, ...) stays a harness error.
                        if [libc::SIGSEGV, libc::SIGBUS, libc::SIGILL, libc::SIGABRT, libc::SIGFPE].contains(&sig) {
                            if let Ok(i) = at.parse::<u64>() {
                                crashes.push((i, sig));
                            }
                        } else {
                            harness.push(format!("worker {} died ({}) while running index {}", w, st, at));
                        }
                    }
                }
                Ok(None) => {
                    let (t, at) = beats[w].lock().unwrap().clone();
                    if t.elapsed() > stall {
                        let _ = children[w].kill();
                        let _ = children[w].wait();
                        alive[w] = false;
                        harness.push(format!(
                            "worker {} made no progress for {}s at index {} (uncontrolled hang: a primitive outside the seam?)",
                            w,
                            stall.as_secs(),
                            at
                        ));
                    }
                }
                Err(e) => {
                    alive[w] = false;
                    harness.push(format!("worker {}: {}", w, e));
                }
            }
        }
    }
    for r in readers {
        let _ = r.join();
    }
    let reports = std::mem::take(&mut *reports.lock().unwrap());
    if reports.len() != nw && harness.is_empty() && crashes.is_empty() {
        harness.push(format!("{} of {} workers reported", reports.len(), nw));
    }
    let mut m = Merged { crashes, stats: Stats::default(), violations: vec![], listing: vec![], harness };
    for r in reports {
        merge_stats(&mut m.stats, r.stats);
        for (name, path) in r.files {
            let set = match name.as_str() {
                "interleavings" => &mut m.stats.interleavings,
                "histories" => &mut m.stats.histories,
                "nontrivial" => &mut m.stats.nontrivial,
                _ => &mut m.stats.cases,
            };
            read_set(Path::new(&path), set);
        }
        m.violations.extend(r.violations);
        m.listing.extend(r.listing);
    }
    let more: Vec<(u64, i32)> = m.stats.crashes.clone();
    m.crashes.extend(more);
    m.violations.sort_by_key(|v| v.idx);
    m.listing.sort();
    let _ = std::fs::remove_dir_all(&scratch);
    m
}

#[derive(Clone, Debug)]
struct Known {
    property: String,
    class: String,
    fingerprint: String,
    text: String,
}

fn known_findings() -> Vec<Known> {
    let mut out = vec![];
    let text = std::fs::read_to_string(home().join("KNOWN_FINDINGS.txt")).unwrap_or_default();
    for line in text.lines() {
        let line = line.trim();
        if let Some(rest) = line.strip_prefix("known:") {
            let (kv, desc) = match rest.split_once("::") {
                Some((a, b)) => (a, b.trim()),
                None => (rest, ""),
            };
            let mut k = Known { property: String::new(), class: String::new(), fingerprint: String::new(), text: desc.to_string() };
            for tok in kv.split_whitespace() {
                if let Some((a, b)) = tok.split_once('=') {
                    match a {
                        "property" => k.property = b.to_string(),
                        "class" => k.class = b.to_string(),
                        "fingerprint" => k.fingerprint = b.to_string(),
                        _ => {}
                    }
                }
            }
            out.push(k);
        }
    }
    out
}

/// static scan for synchronisation or global state that bypasses the seam
fn lint_repo() -> Vec<String> {
    let mut found = vec![];
    let src = repo().join("src");
    let pats = [
        "std::sync::Once",
        "OnceLock",
        "LazyLock",
        "RwLock",
        "Condvar",
        "mpsc",
        "static mut",
        // `thread_local!` itself is inside the seam (lib.rs routes it to the simulator's); only the
        // fully qualified spelling escapes it
        "std::thread_local",
        "lazy_static!",
        "std::thread",
        "Atomic",
        "once_cell::sync::Lazy",
        "once_cell::unsync",
        "parking_lot",
        "UnsafeCell",
    ];
    if let Ok(rd) = std::fs::read_dir(&src) {
        let mut files: Vec<PathBuf> = rd.filter_map(|e| e.ok()).map(|e| e.path()).collect();
        files.sort();
        for f in files {
            if f.file_name().map(|n| n == "verif_sync.rs").unwrap_or(false) {
                continue;
            }
            let text = std::fs::read_to_string(&f).unwrap_or_default();
            let mut in_tests = false;
            let mut prev = String::new();
            for (ln, line) in text.lines().enumerate() {
                let seam_alias = prev.contains("cfg(not(feature = \"verif_sim\"))") || line.contains("crate::verif_sync");
                prev = line.trim().to_string();
                if seam_alias {
                    // `#[cfg(not(feature = "verif_sim"))] use std::sync::X;` + `use crate::verif_sync::X;`:
                    // the primitive is routed through the seam
                    continue;
                }
                if line.contains("#[cfg(test)]") {
                    in_tests = true;
                }
                if in_tests {
                    continue;
                }
                let t = line.trim();
                if t.starts_with("//") || t.contains("shuttle::thread_local") {
                    continue;
                }
                for p in pats {
                    if t.contains(p) {
                        found.push(format!("{}:{}: {}", f.display(), ln + 1, t));
                    }
                }
            }
        }
    }
    found
}

/// minimise in a forked child: whatever the changed engine does while candidates are tried (abort on a
/// double panic, stack overflow, ...) cannot take the master down; if the child dies the unshrunk
/// violation is reported
fn shrink_in_child(p: &dyn Prop, v: &Violation, seed: u64) -> Violation {
    let mut fds = [0i32; 2];
    if unsafe { libc::pipe(fds.as_mut_ptr()) } != 0 {
        return v.clone();
    }
    let pid = unsafe { libc::fork() };
    if pid < 0 {
        return v.clone();
    }
    if pid == 0 {
        unsafe { libc::close(fds[0]) };
        let mut sh = Shrinker::new(p, &v.class, seed);
        let small = sh.run(v);
        let bytes = serde_json::to_vec(&small).unwrap_or_default();
        let mut off = 0;
        while off < bytes.len() {
            let n = unsafe { libc::write(fds[1], bytes[off..].as_ptr() as *const libc::c_void, bytes.len() - off) };
            if n <= 0 {
                break;
            }
            off += n as usize;
        }
        unsafe { libc::_exit(0) };
    }
    unsafe { libc::close(fds[1]) };
    let mut buf = vec![];
    let mut chunk = [0u8; 65536];
    loop {
        let n = unsafe { libc::read(fds[0], chunk.as_mut_ptr() as *mut libc::c_void, chunk.len()) };
        if n <= 0 {
            break;
        }
        buf.extend_from_slice(&chunk[..n as usize]);
    }
    unsafe { libc::close(fds[0]) };
    let mut status = 0i32;
    unsafe { libc::waitpid(pid, &mut status, 0) };
    from_json::<Violation>(&String::from_utf8_lossy(&buf)).unwrap_or_else(|_| v.clone())
}

/// does running this case index kill a fresh process with a fatal signal?  (None = it survives)
fn crash_probe(id: &str, tier: Tier, seed: u64, idx: u64) -> Option<i32> {
    use std::os::unix::process::ExitStatusExt;
    let exe = std::env::current_exe().unwrap();
    let mut child = Command::new(exe)
        .args(["crashprobe", id, tier.name(), &seed.to_string(), &idx.to_string()])
        .stdout(Stdio::null())
        .stderr(Stdio::null())
        .spawn()
        .ok()?;
    let t0 = Instant::now();
    loop {
        match child.try_wait() {
            Ok(Some(st)) => return st.signal(),
            Ok(None) => {
                // memory unsafety may as well hang: that is "did not reproduce as a crash"
                if t0.elapsed() > Duration::from_secs(60) {
                    let _ = child.kill();
                    let _ = child.wait();
                    return None;
                }
                std::thread::sleep(Duration::from_millis(10));
            }
            Err(_) => return None,
        }
    }
}

/// see "histprobe"
fn hist_run(id: &str, tier: Tier, seed: u64, w: u64, nw: u64, upto: u64) -> i32 {
    let p = match props::get(id) {
        Some(p) => p,
        None => return 2,
    };
    let mut rt = Rt::new();
    let mut idx = w;
    while idx <= upto {
        let vs = p.run_index(idx, seed, tier, &mut rt);
        if idx == upto {
            return match vs.first() {
                Some(v) => {
                    println!("REPRODUCED class={} property={}", v.class, id);
                    println!("detail: {}", v.detail);
                    1
                }
                None => {
                    println!("NOT-REPRODUCED property={} (the property held at index {} after this process history)", id, upto);
                    0
                }
            };
        }
        idx += nw;
    }
    0
}

/// the class reported for `idx` by a FRESH worker process that first runs what worker w of nw ran before it
/// (the very same code path as the worker that found it)
fn history_probe(id: &str, tier: Tier, seed: u64, w: u64, nw: u64, idx: u64) -> Option<String> {
    let exe = std::env::current_exe().unwrap();
    let scratch = out_root().join(format!("histprobe-{}", std::process::id()));
    let _ = std::fs::create_dir_all(&scratch);
    let out = Command::new(exe)
        .args(["worker", id, tier.name(), &seed.to_string(), &w.to_string(), &nw.to_string(), &scratch.to_string_lossy()])
        .env("VERIF_UPTO", idx.to_string())
        .stderr(Stdio::null())
        .output()
        .ok();
    let _ = std::fs::remove_dir_all(&scratch);
    let out = out?;
    let text = String::from_utf8_lossy(&out.stdout).to_string();
    for line in text.lines() {
        if let Some(rest) = line.strip_prefix("R ") {
            if let Ok(rep) = from_json::<WorkerReport>(rest) {
                return rep.violations.iter().find(|v| v.idx == idx).map(|v| v.class.clone());
            }
        }
    }
    None
}

fn write_replay(v: &Violation, minimised: bool, original_ops: usize) -> PathBuf {
    let dir = out_root().join("replays");
    let _ = std::fs::create_dir_all(&dir);
    let path = dir.join(format!("{}-{}-{}.json", v.property, v.seed, v.idx));
    let doc = json!({
        "property": v.property,
        "class": v.class,
        "detail": v.detail,
        "seed": v.seed,
        "index": v.idx,
        "minimised": minimised,
        "original_ops": original_ops,
        "ops": v.case.n_ops(),
        "fingerprint": format!("{:016x}", v.case.fingerprint()),
        "case": v.case,
        "schedule": v.sched,
        "readable": {
            "pre": v.case.pre.iter().map(props::c13::show_op).collect::<Vec<_>>(),
            "threads": v.case.threads.iter().map(|t| t.iter().map(props::c13::show_op).collect::<Vec<_>>()).collect::<Vec<_>>(),
            "post": v.case.post.iter().map(props::c13::show_op).collect::<Vec<_>>(),
            "fault": format!("{:?}", v.case.fault),
        },
    });
    std::fs::write(&path, serde_json::to_string_pretty(&doc).unwrap()).unwrap();
    path
}

fn replay_in_fresh_process(path: &Path) -> Option<String> {
    let exe = std::env::current_exe().unwrap();
    let out = Command::new(exe).arg("replay").arg(path).stderr(Stdio::null()).output().ok()?;
    let text = String::from_utf8_lossy(&out.stdout).to_string();
    if out.status.code() == Some(1) {
        text.lines().find_map(|l| l.strip_prefix("REPRODUCED class=").map(|s| s.split_whitespace().next().unwrap_or("").to_string()))
    } else {
        None
    }
}

pub fn replay(file: &str) -> i32 {
    let text = match std::fs::read_to_string(file) {
        Ok(t) => t,
        Err(e) => {
            eprintln!("cannot read {}: {}", file, e);
            return 2;
        }
    };
    let doc: serde_json::Value = from_json(&text).expect("replay file is JSON");
    let prop = doc["property"].as_str().unwrap_or("");
    if doc["class"].as_str() == Some("crash") {
        // a crash of the engine cannot be replayed from inside the dying process: re-run the case index
        let tier = if doc["tier"].as_str() == Some("thorough") { Tier::Thorough } else { Tier::Quick };
        return match crash_probe(prop, tier, doc["seed"].as_u64().unwrap_or(0), doc["index"].as_u64().unwrap_or(0)) {
            Some(sig) => {
                println!("REPRODUCED class=crash property={}", prop);
                println!("detail: the process running case index {} was killed by signal {}", doc["index"], sig);
                println!("VIOLATION property={} replay={}", prop, file);
                1
            }
            None => {
                println!("NOT-REPRODUCED property={} (the process survived this case index)", prop);
                0
            }
        };
    }
    if doc["kind"].as_str() == Some("process_history") {
        let tier = if doc["tier"].as_str() == Some("thorough") { Tier::Thorough } else { Tier::Quick };
        let got = history_probe(prop, tier, doc["seed"].as_u64().unwrap_or(0), doc["worker"].as_u64().unwrap_or(0), doc["workers"].as_u64().unwrap_or(1), doc["index"].as_u64().unwrap_or(0));
        return match got {
            Some(class) => {
                println!("REPRODUCED class={} property={}", class, prop);
                println!("detail: {}", doc["detail"].as_str().unwrap_or(""));
                println!("VIOLATION property={} replay={}", prop, file);
                1
            }
            None => {
                println!("NOT-REPRODUCED property={} (the property held at this index after the recorded process history)", prop);
                0
            }
        };
    }
    let p = match props::get(prop) {
        Some(p) => p,
        None => {
            eprintln!("unknown property {}", prop);
            return 2;
        }
    };
    let case: crate::case::Case = from_json(&doc["case"].to_string()).expect("case");
    let sched: crate::sched::SchedSpec = serde_json::from_value(doc["schedule"].clone()).expect("schedule");
    let mut rt = Rt::new();
    match p.judge_one(&Arc::new(case), &sched, &mut rt) {
        Some((class, detail)) => {
            println!("REPRODUCED class={} property={}", class, prop);
            println!("detail: {}", detail);
            println!("VIOLATION property={} replay={}", prop, file);
            1
        }
        None => {
            println!("NOT-REPRODUCED property={} (the property held on this replay)", prop);
            0
        }
    }
}

fn show(id: &str, idx: u64) -> i32 {
    let p = props::get(id).expect("property");
    let mut rt = Rt::new();
    rt.max_samples = 100;
    let vs = p.run_index(idx, seed_env(), tier_env(), &mut rt);
    println!("{}", serde_json::to_string_pretty(&rt.stats.samples).unwrap());
    println!("runs={} model_runs={} oracle_runs={} fired={:?} probes={:?} skipped={:?}", rt.stats.runs, rt.stats.model_runs, rt.stats.oracle_runs, rt.stats.fired, rt.stats.probes, rt.stats.skipped);
    for v in vs {
        println!("VIOLATION-CANDIDATE class={} detail={}", v.class, v.detail);
        println!("{}", serde_json::to_string(&v.case).unwrap());
    }
    0
}

pub fn check(p: &dyn Prop, tier: Tier, seed: u64) -> i32 {
    let meta = p.meta();
    let t0 = Instant::now();
    println!("simcheck property={} tier={} VERIF_SEED={} repo={}", meta.id, tier.name(), seed, repo().display());
    let lint = lint_repo();
    for l in &lint {
        println!("SEAM-LINT: {}", l);
    }
    if !lint.is_empty() && std::env::var("VERIF_ISOLATED").is_err() {
        // state outside the seam (thread-locals, plain statics, other primitives) could leak from one
        // simulated process into the next: give every case index its own forked OS process
        println!("SEAM-LINT: {} finding(s): switching to isolated mode (one forked process per case index)", lint.len());
        std::env::set_var("VERIF_ISOLATED", "1");
    }
    let nw = workers_env();
    let merged = run_workers(meta.id, tier, seed, nw, false);
    let mut exit = 0;
    let mut harness = merged.harness.clone();
    harness.extend(merged.stats.harness_errors.iter().cloned());
    if !merged.stats.nondeterminism.is_empty() {
        for n in &merged.stats.nondeterminism {
            harness.push(format!("nondeterminism: {}", n));
        }
    }
    let known = known_findings();
    let mut reported = 0usize;
    let mut known_hits: BTreeMap<String, usize> = BTreeMap::new();
    let mut classes_seen: BTreeSet<String> = BTreeSet::new();
    let mut attempts: BTreeMap<String, usize> = BTreeMap::new();
    let mut unreproduced: Vec<(String, String)> = vec![];
    let mut violation_lines = vec![];
    for v in &merged.violations {
        if v.class == "harness_crash" {
            harness.push(format!("index {}: {}", v.idx, v.detail));
            continue;
        }
        let fp = format!("{:016x}", v.case.fingerprint());
        if let Some(k) = known.iter().find(|k| k.property == v.property && k.class == v.class && k.fingerprint == fp) {
            *known_hits.entry(format!("property={} {} [{} fingerprint={}]", k.property, k.text, k.class, k.fingerprint)).or_insert(0) += 1;
            continue;
        }
        if classes_seen.contains(&v.class) || reported >= 3 {
            continue;
        }
        // up to four candidates per violation class are tried until one reproduces
        let tries = attempts.entry(v.class.clone()).or_insert(0usize);
        if *tries >= 4 {
            continue;
        }
        *tries += 1;
        // minimise, write the replay file, and make sure it reproduces in a fresh process
        let original_ops = v.case.n_ops();
        let small = shrink_in_child(p, v, seed);
        let mut path = write_replay(&small, true, original_ops);
        let mut ok = replay_in_fresh_process(&path).map(|c| c == v.class).unwrap_or(false);
        if !ok {
            path = write_replay(v, false, original_ops);
            ok = replay_in_fresh_process(&path).map(|c| c == v.class).unwrap_or(false);
        }
        if ok {
            reported += 1;
            classes_seen.insert(v.class.clone());
            violation_lines.push(format!("VIOLATION property={} replay={}", v.property, path.display()));
            println!("violation class={} index={} : {}", v.class, v.idx, small.detail);
        } else {
            // the case alone does not reproduce in a fresh process: does it after the same PROCESS HISTORY
            // (the case indices its worker ran before it, in the same order)?  Then the violation depends on
            // state outside the simulated process (heap layout / address reuse, ...) and the replay is that history.
            let (w, n) = (v.idx % nw as u64, nw as u64);
            let a = history_probe(meta.id, tier, seed, w, n, v.idx);
            let b = history_probe(meta.id, tier, seed, w, n, v.idx);
            if a.as_deref() == Some(v.class.as_str()) && a == b {
                let hpath = out_root().join("replays").join(format!("{}-{}-{}-history.json", v.property, v.seed, v.idx));
                let doc = json!({
                    "property": v.property, "class": v.class, "kind": "process_history", "seed": v.seed, "index": v.idx, "tier": tier.name(),
                    "worker": w, "workers": n, "minimised": false, "detail": v.detail,
                    "note": "the case alone does not reproduce in a fresh process; it reproduces (twice) when a fresh process first runs the case indices worker, worker+workers, ... before this index, as the worker that found it did: the violation depends on state that outlives a simulated process (heap layout, address reuse)",
                    "case": v.case,
                });
                std::fs::write(&hpath, serde_json::to_string_pretty(&doc).unwrap()).unwrap();
                reported += 1;
                classes_seen.insert(v.class.clone());
                violation_lines.push(format!("VIOLATION property={} replay={}", v.property, hpath.display()));
                println!("violation class={} index={} (reproduces only after the same process history) : {}", v.class, v.idx, v.detail);
            } else {
                unreproduced.push((
                    v.class.clone(),
                    format!(
                        "a violation candidate (class {}, index {}) did not reproduce from its replay file {} in a fresh process",
                        v.class,
                        v.idx,
                        path.display()
                    ),
                ));
            }
        }
    }
    // a class none of whose candidates could be reproduced is a harness error (a class that did reproduce
    // from another candidate is reported through that one)
    for (class, msg) in &unreproduced {
        if !classes_seen.contains(class) {
            harness.push(msg.clone());
        }
    }
    // engine crashes: confirmed twice in fresh processes, then reported with an index-based replay file
    let mut crash_sites = merged.crashes.clone();
    crash_sites.sort();
    crash_sites.dedup();
    for (idx, sig) in crash_sites.iter().take(2) {
        let a = crash_probe(meta.id, tier, seed, *idx);
        let b = crash_probe(meta.id, tier, seed, *idx);
        if a.is_some() && a == b {
            let dir = out_root().join("replays");
            let _ = std::fs::create_dir_all(&dir);
            let path = dir.join(format!("{}-{}-{}-crash.json", meta.id, seed, idx));
            let doc = json!({
                "property": meta.id, "class": "crash", "seed": seed, "index": idx, "tier": tier.name(), "signal": a,
                "detail": format!("the process running case index {} of {} dies with signal {} (reproduced twice in fresh processes): memory unsafety, an abort or stack exhaustion in the engine", idx, meta.id, a.unwrap()),
                "minimised": false,
                "note": "replayed by re-running the case index (bin/check show <property> <index> prints the case); a dying process cannot record its schedule"
            });
            std::fs::write(&path, serde_json::to_string_pretty(&doc).unwrap()).unwrap();
            println!("violation class=crash index={} : the engine kills the process (signal {}), reproduced twice in fresh processes", idx, a.unwrap());
            violation_lines.push(format!("VIOLATION property={} replay={}", meta.id, path.display()));
        } else {
            harness.push(format!("a worker died with signal {} at index {} but the crash did not reproduce in a fresh process", sig, idx));
        }
    }
    for (k, n) in &known_hits {
        println!("KNOWN-FINDING: {} (seen {} times this run)", k, n);
    }
    for l in &violation_lines {
        println!("{}", l);
    }
    if !violation_lines.is_empty() {
        exit = 1;
    }
    if !harness.is_empty() {
        for h in harness.iter().take(20) {
            println!("HARNESS-ERROR: {}", h);
        }
        if exit == 0 {
            exit = 2;
        }
    }
    let wall = t0.elapsed().as_secs_f64();
    write_evidence(&meta, tier, seed, &merged.stats, wall, violation_lines.len(), &known_hits, &lint, nw);
    let s = &merged.stats;
    println!(
        "{}: indices={} runs={} model_runs={} oracle_runs={} steps={} distinct_interleavings={} distinct_histories={} nontrivial={} wall={:.1}s runs/hour={:.0}",
        meta.id,
        s.indices,
        s.runs,
        s.model_runs,
        s.oracle_runs,
        s.steps,
        s.interleavings.len(),
        s.histories.len(),
        s.nontrivial.len(),
        wall,
        s.runs as f64 / wall * 3600.0
    );
    println!("fired={:?}", s.fired);
    println!("probes={:?} skipped={:?}", s.probes, s.skipped);
    println!("RESULT property={} exit={}", meta.id, exit);
    exit
}

#[allow(clippy::too_many_arguments)]
fn write_evidence(
    meta: &PropMeta,
    tier: Tier,
    seed: u64,
    s: &Stats,
    wall: f64,
    violations: usize,
    known_hits: &BTreeMap<String, usize>,
    lint: &[String],
    nw: usize,
) {
    let dir = out_root().join("evidence");
    let _ = std::fs::create_dir_all(&dir);
    let mut fired = serde_json::Map::new();
    for k in meta.fault_kinds {
        fired.insert(k.to_string(), json!(s.fired.get(*k).copied().unwrap_or(0)));
    }
    for (k, v) in &s.fired {
        fired.entry(k.clone()).or_insert(json!(v));
    }
    let mut reach_warnings = vec![];
    for (k, v) in &fired {
        if v.as_u64() == Some(0) {
            reach_warnings.push(format!("fault kind {} never fired in this run", k));
        }
    }
    for (k, v) in &s.probes {
        if *v == 0 {
            reach_warnings.push(format!("reach probe {} stuck at zero in this run", k));
        }
    }
    let samples: Vec<serde_json::Value> = s.samples.iter().take(6).cloned().collect();
    let doc = json!({
        "property_id": meta.id,
        "tier": tier.name(),
        "seed": seed,
        "level": meta.level,
        "wall_s": wall,
        "violations": violations,
        "assumptions": meta.assumptions,
        "coverage": {
            "evaluations": s.runs,
            "distinct_nontrivial": s.nontrivial.len(),
            "rule": meta.rule,
            "samples": samples,
            "technique": "deterministic simulation with fault injection (seeded schedules and handler faults over the real engine; reference-model / sequential-engine oracles)",
            "case_indices": s.indices,
            "distinct_cases": s.cases.len(),
            "simulated_runs": s.runs,
            "runs_per_hour": (s.runs as f64 / wall.max(0.001) * 3600.0) as u64,
            "seeds_per_hour": (s.indices as f64 / wall.max(0.001) * 3600.0) as u64,
            "model_runs": s.model_runs,
            "sequential_oracle_runs": s.oracle_runs,
            "simulated_time": "not applicable: the system has no clock; scheduling steps are the unit",
            "scheduling_steps": s.steps,
            "scheduling_decisions_with_choice": s.decisions,
            "context_switches": s.switches,
            "preemptions": s.preemptions,
            "distinct_interleavings": s.interleavings.len(),
            "distinct_interleavings_measure": "distinct (case fingerprint, sequence of scheduler decisions restricted to decisions with more than one runnable task)",
            "distinct_histories": s.histories.len(),
            "distinct_histories_measure": "distinct hashes of the full recorded event log (invoke/return order with results, handler invocations, injected faults)",
            "fault_kinds_fired": fired,
            "fault_kinds_not_applicable": ["message loss/duplication/reordering", "partitions", "clock skew/jumps", "disk errors / torn or lost writes", "allocation failure (aborts, not handled)"],
            "reach_probes": s.probes,
            "reach_warnings": reach_warnings,
            "skipped": s.skipped,
            "determinism_rechecks": s.determinism_rechecks,
            "known_findings_seen": known_hits,
            "seam_lint_findings": lint,
            "workers": nw,
            "components_real": ["tokenizer", "parser", "evaluator", "operator/function/descriptor registries", "Context", "init", "rust_decimal"],
            "components_stubbed": ["std::sync::Mutex -> shuttle::sync::Mutex (wraps the real std mutex; real poisoning)", "once_cell::sync::OnceCell -> per-execution once-cell on shuttle::sync::Once", "OS threads -> shuttle tasks", "handlers, descriptors, contexts and callers are the simulator's workload"],
            "exhaustive": false
        }
    });
    let path = dir.join(format!("{}.json", meta.id));
    std::fs::write(&path, serde_json::to_string_pretty(&doc).unwrap()).unwrap();
}

/// Run a sample of seeds twice, in separate OS processes, with 1 and with N
/// workers, and diff the per-index digests.
fn determinism(ids: &[String]) -> i32 {
    let ids: Vec<String> = if ids.is_empty() { props::all().iter().map(|p| p.meta().id.to_string()).collect() } else { ids.to_vec() };
    let seed = seed_env();
    let mut bad = 0;
    for id in ids {
        std::env::set_var("VERIF_SCALE", "1");
        let a = run_workers(&id, Tier::Quick, seed, 1.max(workers_env() / 2), true);
        let b = run_workers(&id, Tier::Quick, seed, workers_env(), true);
        let c = run_workers(&id, Tier::Quick, seed, 3, true);
        let same = a.listing == b.listing && b.listing == c.listing && a.stats.runs == b.stats.runs && b.stats.runs == c.stats.runs;
        let diffs = a.listing.iter().zip(b.listing.iter()).filter(|(x, y)| x != y).count()
            + b.listing.iter().zip(c.listing.iter()).filter(|(x, y)| x != y).count();
        println!(
            "determinism {}: {} indices, {} runs, three process layouts ({} / {} / 3 workers): {}",
            id,
            a.listing.len(),
            a.stats.runs,
            1.max(workers_env() / 2),
            workers_env(),
            if same { "identical".to_string() } else { format!("DIFFERENT ({} index digests differ)", diffs) }
        );
        if !same {
            bad += 1;
        }
        for h in a.harness.iter().chain(b.harness.iter()).chain(c.harness.iter()) {
            println!("HARNESS-ERROR: {}", h);
            bad += 1;
        }
    }
    if bad > 0 {
        2
    } else {
        0
    }
}

/// Fidelity of the stubbed primitives: deterministic cases (one caller at a time) sampled from every
/// property's own generator are replayed against the STD build of the engine (real std::sync::Mutex,
/// real once_cell, real OS threads), each in its own OS process, and must produce the identical
/// history.  A deadlock there shows as a child that has to be killed.
fn fidelity(ids: &[String]) -> i32 {
    let ids: Vec<String> = if ids.is_empty() { props::all().iter().map(|p| p.meta().id.to_string()).collect() } else { ids.to_vec() };
    let seed = seed_env();
    let std_exe = std::env::current_exe().unwrap().with_file_name("stdcheck");
    if !std_exe.exists() {
        println!("HARNESS-ERROR: {} not built (bin/check fidelity builds it)", std_exe.display());
        return 2;
    }
    let per_prop: u64 = std::env::var("VERIF_FIDELITY_INDICES").ok().and_then(|s| s.parse().ok()).unwrap_or(400);
    let mut bad = 0usize;
    for id in ids {
        let p = props::get(&id).expect("property");
        let mut rt = Rt::new();
        rt.fidelity_sink = Some(vec![]);
        let n = p.n_indices(Tier::Quick).min(per_prop);
        for idx in 0..n {
            let _ = p.run_index(idx, seed, Tier::Quick, &mut rt);
        }
        let mut pairs = rt.fidelity_sink.take().unwrap();
        let mut seen = BTreeSet::new();
        pairs.retain(|(c, _)| seen.insert(crate::prng::h64(serde_json::to_string(&**c).unwrap().as_bytes())));
        let total = pairs.len();
        let pairs = Arc::new(pairs);
        let next = Arc::new(std::sync::atomic::AtomicUsize::new(0));
        let results: Arc<Mutex<Vec<(usize, String)>>> = Arc::new(Mutex::new(vec![]));
        let mut hs = vec![];
        for _ in 0..workers_env() {
            let (pairs, next, results, std_exe) = (pairs.clone(), next.clone(), results.clone(), std_exe.clone());
            hs.push(std::thread::spawn(move || loop {
                let i = next.fetch_add(1, std::sync::atomic::Ordering::SeqCst);
                if i >= pairs.len() {
                    break;
                }
                let (case, log) = &pairs[i];
                let mut child = Command::new(&std_exe).stdin(Stdio::piped()).stdout(Stdio::piped()).stderr(Stdio::null()).spawn().expect("stdcheck");
                {
                    let mut si = child.stdin.take().unwrap();
                    let _ = si.write_all(serde_json::to_string(&**case).unwrap().as_bytes());
                }
                let t0 = Instant::now();
                // drain stdout concurrently (a long history does not fit into the pipe buffer)
                let mut so = child.stdout.take().unwrap();
                let reader = std::thread::spawn(move || {
                    use std::io::Read;
                    let mut out = String::new();
                    let _ = so.read_to_string(&mut out);
                    out
                });
                let verdict = loop {
                    match child.try_wait() {
                        Ok(Some(_)) => {
                            let out = reader.join().unwrap_or_default();
                            let theirs: serde_json::Value = serde_json::from_str(out.trim()).unwrap_or(serde_json::Value::Null);
                            let ours = serde_json::to_value(log).unwrap();
                            break if theirs == ours { String::new() } else { format!("history differs: std build {} vs simulator {}", theirs, ours) };
                        }
                        Ok(None) => {
                            if t0.elapsed() > Duration::from_secs(20) {
                                let _ = child.kill();
                                let _ = child.wait();
                                break "the std build HUNG (killed after 20 s): a real deadlock".to_string();
                            }
                            std::thread::sleep(Duration::from_millis(2));
                        }
                        Err(e) => break format!("wait failed: {}", e),
                    }
                };
                if !verdict.is_empty() {
                    results.lock().unwrap().push((i, verdict));
                }
            }));
        }
        for h in hs {
            let _ = h.join();
        }
        let res = results.lock().unwrap();
        println!("fidelity {}: {} distinct deterministic cases replayed on the std build (real Mutex / once_cell / OS threads, one OS process each): {} identical, {} different", id, total, total - res.len(), res.len());
        for (i, v) in res.iter().take(3) {
            let v: String = v.chars().take(600).collect();
            println!("HARNESS-ERROR: fidelity {}: case {}: {}", id, serde_json::to_string(&*pairs[*i].0).unwrap().chars().take(400).collect::<String>(), v);
        }
        bad += res.len();
    }
    if bad > 0 {
        2
    } else {
        0
    }
}
