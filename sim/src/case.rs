//! A simulation case: explicit data (never "regenerate from seed") describing the
//! handler table (the engine's whole environment), the contexts, the operations
//! of every simulated caller, and the fault plan.

use crate::expr::{Prog, Val};
use serde::{Deserialize, Serialize};

#[derive(Clone, Copy, PartialEq, Eq, Hash, Debug, Serialize, Deserialize, PartialOrd, Ord)]
pub enum HKind {
    Func,
    Prefix,
    Infix,
    Postfix,
    CtxFunc,
}

#[derive(Clone, PartialEq, Eq, Hash, Debug, Serialize, Deserialize)]
pub enum Ret {
    /// `[ "h<id>", args... ]` — identifies which registration served a call and,
    /// for operator chains, *is* the grouping
    Marker,
    Const(Val),
    /// the i-th argument (assignment-like SETTER handlers: Arg(1))
    Arg(usize),
    /// sorted dump of the context slot, read through its public handle
    /// (the handler locks the very context it is evaluated in)
    DumpSlot(usize),
    /// a delegating handler: it evaluates this program on a fresh context and returns the outcome
    /// as its own (the value, or the very Err the nested evaluation produced)
    Delegate(Prog, CtxSpec),
    /// a handler that ALWAYS fails (returns Err) - a permanent fault rather than one injected at an
    /// invocation index, so that it means the same in a concurrent run and in its sequential replays
    Fail,
}

#[derive(Clone, PartialEq, Eq, Hash, Debug, Serialize, Deserialize)]
pub struct HandlerSpec {
    pub kind: HKind,
    pub ret: Ret,
    /// re-entrant actions performed (in order) on every invocation before returning
    pub actions: Vec<Op>,
}

impl HandlerSpec {
    pub fn plain(kind: HKind, ret: Ret) -> HandlerSpec {
        HandlerSpec { kind, ret, actions: vec![] }
    }
}

#[derive(Clone, PartialEq, Eq, Hash, Debug, Serialize, Deserialize)]
pub struct CtxSpec {
    pub vars: Vec<(String, Val)>,
    /// name -> handler id
    pub funcs: Vec<(String, usize)>,
}

impl CtxSpec {
    pub fn empty() -> CtxSpec {
        CtxSpec { vars: vec![], funcs: vec![] }
    }
}

#[derive(Clone, PartialEq, Eq, Hash, Debug, Serialize, Deserialize)]
pub enum CtxRef {
    /// a context built for this operation alone
    Fresh(CtxSpec),
    /// a `Context` sharing the handle of slot i (kept for the whole run)
    Slot(usize),
}

#[derive(Clone, Copy, PartialEq, Eq, Hash, Debug, Serialize, Deserialize, PartialOrd, Ord)]
pub enum DKind {
    Unary,
    Binary,
    Postfix,
    Ternary,
    Function,
    Reference,
    List,
    Map,
    Chain,
}

/// descriptor ids from here on denote re-entrant descriptors (they call parse_expression + describe themselves)
pub const REENTRANT_DESC: usize = 1000;
/// descriptor ids in REG_DESC..SELF_DESC REGISTER a descriptor from inside the descriptor (the reference
/// descriptor of the name `inner_r`, always the plain marker REG_INNER_ID, so that concurrent ones commute)
/// and then describe `inner_r`: the registration must be in effect for that very describe and afterwards
pub const REG_DESC: usize = 20_000;
pub const REG_INNER_ID: usize = 999;
/// descriptor ids in SELF_DESC..EMPTY_DESC re-enter the engine like the re-entrant ones, but describe a
/// program that contains nodes of (almost) every kind and name - possibly their OWN key - and limit their
/// own recursion: inside such a descriptor (depth >= 1) they render `<id|parts|~>` without re-entering
pub const SELF_DESC: usize = 50_000;
/// the program a self-describing descriptor describes
pub fn self_desc_program() -> crate::expr::Expr {
    use crate::expr::*;
    Expr::List(vec![
        un("-", rf("a")),
        bin("+", rf("a"), lit_i(1)),
        post(rf("a"), "++"),
        call("f", vec![rf("a")]),
        tern(rf("zz"), lit_i(1), lit_i(2)),
        Expr::Map(vec![(lit_i(1), rf("a"))]),
    ])
}
/// descriptor ids from here on render their node as the EMPTY string (a legal rendering)
pub const EMPTY_DESC: usize = 100_000;

pub const DKINDS: [DKind; 9] = [
    DKind::Unary,
    DKind::Binary,
    DKind::Postfix,
    DKind::Ternary,
    DKind::Function,
    DKind::Reference,
    DKind::List,
    DKind::Map,
    DKind::Chain,
];

impl DKind {
    pub fn named(self) -> bool {
        matches!(self, DKind::Unary | DKind::Binary | DKind::Postfix | DKind::Function | DKind::Reference)
    }
}

#[derive(Clone, PartialEq, Eq, Hash, Debug, Serialize, Deserialize)]
pub enum Op {
    RegFn { name: String, h: usize },
    RegPre { name: String, h: usize },
    RegIn { name: String, prec: i32, setter: bool, right: bool, h: usize },
    RegPost { name: String, h: usize },
    /// `execute(text, ctx)`
    Exec { prog: Prog, ctx: CtxRef },
    /// `parse_expression(text)?.exec(&mut ctx)` where `ctx` is, for the duration of the evaluation, the ONLY
    /// strong owner of slot `slot`'s handle: the harness and the handlers keep `Weak` handles only (the
    /// usual way to avoid an Arc cycle context -> closure -> context) and upgrade them inside a handler
    ExecSole { prog: Prog, slot: usize },
    /// `parse_expression(text)`, result = Debug rendering of the AST
    Parse { prog: Prog },
    /// parse once, then `exec(&mut ctx)` `times` times (Fresh: an equal fresh
    /// context each time; Slot: the same slot each time)
    ParseExec { prog: Prog, ctx: CtxRef, times: u8 },
    /// exec the pre-parsed shared AST number `ast` (parsed by the main task
    /// before the threads start, shared between threads)
    ExecShared { ast: usize, ctx: CtxRef },
    /// `Context::get_variable`
    CtxGetVar { slot: usize, name: String },
    /// `Context::get_func(..).is_some()`
    CtxHasFunc { slot: usize, name: String },
    /// `Context::get`: "var <v>" / "func" / "absent"
    CtxGet { slot: usize, name: String },
    /// `Context::value` (bare-name lookup as the evaluator does it)
    CtxValue { slot: usize, name: String },
    CtxSetVar { slot: usize, name: String, val: Val },
    /// sorted dump of all variable bindings ("<func>" for functions) via the accessors
    CtxDump { slot: usize },
    /// lock the slot's public handle directly and read one entry
    HandleRead { slot: usize, name: String },
    /// lock the slot's public handle directly and insert a variable
    HandleWrite { slot: usize, name: String, val: Val },
    /// descriptor registration through the verif_hooks re-export
    SetDesc { kind: DKind, name: String, id: usize },
    /// `parse_expression(text)?.describe()`
    Describe { prog: Prog },
    /// a SLOW handler: a plain scheduling point in the middle of user code (other simulated threads may run
    /// while this one is parked inside its handler); no effect of its own
    Pause,
    /// run the operations on a freshly spawned simulated thread and join it
    OnThread { ops: Vec<Op> },
    /// thread teardown: a freshly spawned simulated thread runs the operations in its body and then ONCE MORE
    /// from the destructor of one of its own (user) thread-locals while the thread ends; `late` = that
    /// thread-local is first touched after the body (so after the thread's first engine calls) instead of
    /// before it, which decides on which side of the engine's own thread-locals it is destroyed.
    /// Result: the body's results followed by the destructor's.
    OnThreadExit { ops: Vec<Op>, late: bool },
    /// ONE DescriptorManager handle kept in a binding: the registrations are made through it, then the
    /// operations run while it is still alive, then it is dropped
    WithManager { regs: Vec<(DKind, String, usize)>, then: Vec<Op> },
}

impl Op {
    pub fn is_reg(&self) -> bool {
        matches!(self, Op::RegFn { .. } | Op::RegPre { .. } | Op::RegIn { .. } | Op::RegPost { .. })
    }
}

#[derive(Clone, Copy, PartialEq, Eq, Hash, Debug, Serialize, Deserialize)]
pub enum FaultKind {
    Err,
    Panic,
}

/// "the k-th handler invocation made by simulated task `task` fails"
#[derive(Clone, PartialEq, Eq, Hash, Debug, Serialize, Deserialize)]
pub struct Fault {
    pub task: usize,
    pub k: usize,
    pub kind: FaultKind,
    /// 0: only invocation k fails; n > 0: invocations k, k+n, k+2n, ... fail (fault storms)
    #[serde(default)]
    pub every: usize,
}

impl Fault {
    pub fn once(task: usize, k: usize, kind: FaultKind) -> Fault {
        Fault { task, k, kind, every: 0 }
    }
    pub fn hits(&self, task: usize, k: usize) -> bool {
        self.task == task && (k == self.k || (self.every > 0 && k > self.k && (k - self.k) % self.every == 0))
    }
}

#[derive(Clone, PartialEq, Eq, Hash, Debug, Serialize, Deserialize)]
pub struct Case {
    /// free-form label of the workload family / template (not interpreted)
    pub tag: String,
    pub handlers: Vec<HandlerSpec>,
    pub slots: Vec<CtxSpec>,
    /// programs parsed once by the main task and shared by ExecShared
    pub shared: Vec<Prog>,
    /// executed by the main task, in order, before the threads start
    pub pre: Vec<Op>,
    /// one list per simulated thread (spawned after `pre`, joined before `post`)
    pub threads: Vec<Vec<Op>>,
    /// executed by the main task after all threads were joined
    pub post: Vec<Op>,
    pub fault: Option<Fault>,
}

impl Case {
    pub fn new(tag: &str) -> Case {
        Case {
            tag: tag.to_string(),
            handlers: vec![],
            slots: vec![],
            shared: vec![],
            pre: vec![],
            threads: vec![],
            post: vec![],
            fault: None,
        }
    }
    pub fn add_handler(&mut self, h: HandlerSpec) -> usize {
        self.handlers.push(h);
        self.handlers.len() - 1
    }
    pub fn json(&self) -> serde_json::Value {
        serde_json::to_value(self).unwrap()
    }
    /// stable fingerprint of the case content (tag excluded)
    pub fn fingerprint(&self) -> u64 {
        let mut c = self.clone();
        c.tag = String::new();
        crate::prng::h64(serde_json::to_string(&c).unwrap().as_bytes())
    }
    pub fn n_ops(&self) -> usize {
        self.pre.len() + self.post.len() + self.threads.iter().map(|t| t.len()).sum::<usize>()
    }
}

/// Identity of a top-level operation in a case.
#[derive(Clone, Copy, PartialEq, Eq, Hash, Debug, Serialize, Deserialize, PartialOrd, Ord)]
pub enum OpId {
    Pre(usize),
    Thr(usize, usize),
    Post(usize),
}

/// Outcome of one operation as observed through the public API.
#[derive(Clone, PartialEq, Eq, Hash, Debug, Serialize, Deserialize)]
pub enum Res {
    Unit,
    V(Val),
    /// an `Err` (the message is informational; which error is never demanded)
    E(String),
    /// the call unwound with this payload
    P(String),
    /// Debug rendering of a returned AST
    Ast(String),
    Text(String),
    Opt(Option<Val>),
    Flag(bool),
    Dump(Vec<(String, String)>),
    Many(Vec<Res>),
}

impl Res {
    /// equality used by the oracles: values exact, errors only by error-ness
    pub fn same(&self, other: &Res) -> bool {
        match (self, other) {
            (Res::E(_), Res::E(_)) => true,
            (Res::Many(a), Res::Many(b)) => a.len() == b.len() && a.iter().zip(b).all(|(x, y)| x.same(y)),
            (a, b) => a == b,
        }
    }
    /// like `same`, but an Err must also carry the same message (used where the engine is compared
    /// with ITSELF: whatever an error says is then part of the result)
    pub fn same_exact(&self, other: &Res) -> bool {
        match (self, other) {
            (Res::Many(a), Res::Many(b)) => a.len() == b.len() && a.iter().zip(b).all(|(x, y)| x.same_exact(y)),
            (a, b) => a == b,
        }
    }
    pub fn is_panic(&self) -> bool {
        match self {
            Res::P(_) => true,
            Res::Many(xs) => xs.iter().any(|x| x.is_panic()),
            _ => false,
        }
    }
    pub fn show(&self) -> String {
        match self {
            Res::Unit => "()".into(),
            Res::V(v) => format!("Ok({})", v.show()),
            Res::E(m) => format!("Err({})", m),
            Res::P(m) => format!("PANIC({})", m),
            Res::Ast(s) => format!("Ast({})", s),
            Res::Text(s) => format!("Text({:?})", s),
            Res::Opt(None) => "NoneOpt".into(),
            Res::Opt(Some(v)) => format!("Some({})", v.show()),
            Res::Flag(b) => b.to_string(),
            Res::Dump(d) => format!("{{{}}}", d.iter().map(|(k, v)| format!("{}={}", k, v)).collect::<Vec<_>>().join(", ")),
            Res::Many(xs) => format!("[{}]", xs.iter().map(|x| x.show()).collect::<Vec<_>>().join(" | ")),
        }
    }
}

/// One entry of the recorded history.  The index in the log is the global event
/// sequence number (only one simulated task runs at a time, so it is exact).
#[derive(Clone, PartialEq, Eq, Hash, Debug, Serialize, Deserialize)]
pub enum Ev {
    Inv { op: OpId, task: usize },
    Ret { op: OpId, task: usize, res: Res },
    /// handler invocation
    H { hid: usize, task: usize, args: Vec<Val> },
    /// result of a re-entrant action performed inside handler `hid`
    Act { hid: usize, task: usize, idx: usize, res: Res },
    /// a fault was injected into handler `hid`
    Fault { hid: usize, task: usize, kind: FaultKind },
}
