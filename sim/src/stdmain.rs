#![allow(dead_code)]
//! stdcheck - fidelity runner: the SAME case interpreter as the simulator, but compiled against the
//! std build of the engine (real std::sync::Mutex, real once_cell, real OS threads; only the
//! verif_hooks re-export is on).  Reads one case (JSON) on stdin, runs it in this fresh OS process
//! and prints the recorded history (JSON) on stdout.  A deadlock shows as a process that has to be
//! killed by the caller - which is the real-world symptom.

mod case;
mod expr;
mod prng;
mod simrt;

use std::io::Read;
use std::sync::Arc;

fn main() {
    let mut text = String::new();
    std::io::stdin().read_to_string(&mut text).expect("stdin");
    let mut de = serde_json::Deserializer::from_str(&text);
    de.disable_recursion_limit();
    let case: case::Case = serde::Deserialize::deserialize(&mut de).expect("case JSON");
    let log = simrt::run_case_std(&Arc::new(case));
    println!("{}", serde_json::to_string(&log).unwrap());
}
